#!/bin/bash
# run every seeded change under /verif/seeded through the check of the property it breaks (quick tier)
cd /verif || exit 2
out=${1:-/verif/seeded/RESULTS.txt}
pat=${2:-C}
[ -n "${APPEND:-}" ] || : > "$out"
for d in seeded/${pat}*/; do
  d=${d%/}; [ -f "$d/meta.json" ] || continue
  case "$d" in *${ONLY:-}*) ;; *) continue ;; esac
  id=$(basename $d); prop=${id%%-*}
  title=$(python3 -c "import json;print(json.load(open('$d/meta.json'))['title'])")
  res=$(tools/mutant.sh $d/patch.diff quick $prop 2>&1)
  rc=$(echo "$res" | grep -oE "rc=[0-9]+" | head -1)
  sigs=$(echo "$res" | grep -E "signature=" | sed 's/.*signature=//' | cut -c1-90 | head -3 | tr '\n' ';')
  echo "$id | $rc | $title | $sigs" | tee -a "$out"
done
