#!/bin/bash
# usage: tools/replay_roundtrip.sh <patch.diff> <check>
# With the seeded change applied: the check reports a violation and writes a replay file; replaying that
# file (fresh process) reproduces the same signature; after reverting, the replay reports no violation.
set -u
patch=$(readlink -f "$1"); c=$2
cd /repo || exit 2
git diff --quiet || { echo "refusing: /repo has uncommitted changes" >&2; exit 2; }
git apply "$patch" || exit 2
root=$(mktemp -d /tmp/rrroot.XXXXXX); cp /verif/known_findings.json "$root/"
out=$(cd /verif && VERIF_ROOT="$root" ./check "$c" quick 2>&1); echo "check rc=$?"
f=$(echo "$out" | grep -oE "replay=[^ ]+" | head -1 | cut -d= -f2)
echo "replay file: $f"; echo "$out" | grep -E "signature=" | head -1 | cut -c1-200
if [ -n "$f" ]; then
  r=$(cd /verif && VERIF_ROOT="$root" ./check replay "$f" 2>&1); echo "replay with change applied: rc=$?"; echo "$r" | grep -E "same_signature|signature=|no violation" | head -3 | cut -c1-200
fi
git -C /repo checkout -- .
if [ -n "$f" ]; then
  r=$(cd /verif && VERIF_ROOT="$root" ./check replay "$f" 2>&1); echo "replay on the clean tree: rc=$?"; echo "$r" | grep -E "same_signature|signature=|no violation" | head -3 | cut -c1-200
fi
rm -rf "$root"
