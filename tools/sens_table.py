#!/usr/bin/env python3
"""Render /verif/seeded/RESULTS.txt as the markdown table of DESIGN.md section 14."""
import json, os, sys
rows = []
for line in open('/verif/seeded/RESULTS.txt'):
    parts = [p.strip() for p in line.rstrip('\n').split(' | ')]
    if len(parts) < 4:
        continue
    mid, rc, title, sigs = parts[0], parts[1], parts[2], parts[3]
    sig = [s for s in sigs.split(';') if s][:2]
    rows.append((mid, rc, title, '; '.join(s[:70] for s in sig)))
print('| change | property | what it does | own check (quick) | first signatures |')
print('|---|---|---|---|---|')
for mid, rc, title, sig in rows:
    prop = mid.split('-')[0]
    verdict = 'caught' if rc == 'rc=1' else ('**not caught**' if rc == 'rc=0' else rc)
    print(f'| {mid} | {prop} | {title[:110]} | {verdict} | {sig} |')
