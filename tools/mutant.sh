#!/bin/bash
# usage: tools/mutant.sh <patch.diff> <tier> <check>...   — apply a seeded change to /repo, run checks, revert.
# Replay files and evidence produced while the change is applied go to a scratch VERIF_ROOT.
set -u
patch=$(readlink -f "$1"); tier=$2; shift 2
cd /repo || exit 2
if ! git diff --quiet; then echo "refusing: /repo has uncommitted changes" >&2; exit 2; fi
if ! git apply --check "$patch" 2>/dev/null; then echo "patch does not apply: $patch" >&2; exit 2; fi
git apply "$patch"
scratch=$(mktemp -d /tmp/mutroot.XXXXXX)
cp /verif/known_findings.json "$scratch/"
for c in "$@"; do
  out=$(cd /verif && VERIF_ROOT="$scratch" ./check "$c" "$tier" 2>&1); rc=$?
  echo "== $c rc=$rc"; echo "$out" | grep -E "VIOLATION|class=|harness error|^C[0-9]+:" | cut -c1-260 | head -8
done
git -C /repo checkout -- .
rm -rf "$scratch"
