//! Runs real xray code (compiler, evaluator, natives, std library) inside the simulated world.
//!
//! A `Scenario` is the unit of simulation and of replay: program text, limit configuration,
//! environment plan and the sequence of host operations. It is self-contained JSON.

use crate::world::{self, Counters, EnvCfg, Ev, SimClock, SimRng, SimWriter};
use serde::{Deserialize, Serialize};
use std::panic::{catch_unwind, AssertUnwindSafe};
use std::time::Duration;
use xray::builtin::builtin_permissions as bp;
use xray::permissions::PermissionSet;
use xray::root_compilation_scope::RootCompilationScope;
use xray::root_runtime_scope::{EvaluatedValue, RootEvaluationScope};
use xray::runtime::{RTCell, RuntimeLimits};
use xray::xvalue::{XFunction, XValue};

pub type W = SimWriter;
pub type R = SimRng;
pub type T = SimClock;
pub type Scope = RootCompilationScope<W, R, T>;
pub type Val = EvaluatedValue<W, R, T>;

pub use crate::world::{perm_default, Limits, Perms, BIG, PERM_NAMES};

impl Scenario {
    /// what the configured permission set must answer for each permission
    pub fn effective_perms(&self) -> Perms {
        let mut p = self.perms;
        for (i, on) in &self.perm_ops {
            p[*i] = Some(*on);
        }
        p
    }
}

fn permission_set(p: &Perms, ops: &[(usize, bool)]) -> PermissionSet {
    let all = [&bp::NOW, &bp::PRINT, &bp::PRINT_DEBUG, &bp::RANDOM, &bp::REGEX, &bp::SLEEP];
    let mut s = PermissionSet::default();
    for (i, perm) in all.iter().enumerate() {
        match p[i] {
            Some(true) => s.allow(perm),
            Some(false) => s.forbid(perm),
            None => {}
        }
    }
    for (i, on) in ops {
        if *on {
            s.allow(all[*i])
        } else {
            s.forbid(all[*i])
        }
    }
    s
}

#[derive(Clone, Debug, Serialize, Deserialize, PartialEq)]
pub enum HostOp {
    /// `RootEvaluationScope::from_compilation_scope` into slot
    Instantiate { slot: usize },
    /// `get_user_defined_function(name)` + `run_function`; the result is kept in the result list
    Run { slot: usize, func: String },
    /// `get_value(name)`; a clone of the value is kept in the result list
    GetValue { slot: usize, name: String },
    ResetCalls,
    ResetCallLimit,
    ResetTimeout,
    Advance { ns: u64 },
    /// drop the i-th kept result (no-op if already dropped)
    DropResult { idx: usize },
    DropAllResults,
    DropScope { slot: usize },
}

#[derive(Clone, Debug, Serialize, Deserialize, PartialEq)]
pub struct Scenario {
    pub seed: u64,
    pub label: String,
    pub program: String,
    pub limits: Limits,
    pub perms: Perms,
    /// further `allow` (true) / `forbid` (false) calls the host makes on the permission set, in
    /// order, after the ones implied by `perms` (the last call for a permission wins)
    #[serde(default)]
    pub perm_ops: Vec<(usize, bool)>,
    pub env: EnvCfg,
    pub ops: Vec<HostOp>,
    /// the fault-free reference of this scenario keeps these (search, call) budgets instead of
    /// none: for programs that are endless or very long by design without them
    #[serde(default)]
    pub reference_budgets: Option<(usize, usize)>,
}

impl Scenario {
    pub fn standard(program: &str, limits: Limits) -> Self {
        Scenario {
            seed: 0,
            label: String::new(),
            program: program.to_string(),
            limits,
            perms: [None; 6],
            reference_budgets: None,
            perm_ops: vec![],
            env: EnvCfg::default(),
            ops: standard_ops(),
        }
    }
}

pub fn standard_ops() -> Vec<HostOp> {
    vec![
        HostOp::Instantiate { slot: 0 },
        HostOp::Run { slot: 0, func: "main".into() },
        HostOp::DropAllResults,
        HostOp::DropScope { slot: 0 },
    ]
}

#[derive(Clone, Debug, Serialize, Deserialize, PartialEq)]
pub enum Outcome {
    /// canonical dump of a value
    Value(String),
    /// runtime error value (message)
    Error(String),
    /// runtime violation (Debug text of the violation)
    Violation(String),
    /// panic inside xray (message)
    Crash(String),
    /// host-level lookup failure (no such function etc.)
    Host(String),
    /// op that has no result (resets, drops)
    Unit,
}

impl Outcome {
    pub fn violation_kind(&self) -> Option<&str> {
        match self {
            Outcome::Violation(s) => Some(kind_of(s)),
            _ => None,
        }
    }
    pub fn class(&self) -> String {
        match self {
            Outcome::Value(_) => "value".into(),
            Outcome::Error(_) => "error".into(),
            Outcome::Violation(s) => format!("violation:{}", kind_of(s)),
            Outcome::Crash(_) => "crash".into(),
            Outcome::Host(s) => format!("host:{s}"),
            Outcome::Unit => "unit".into(),
        }
    }
}

/// `OutputFailure(Custom {..})` -> `OutputFailure`; `PermissionError("now")` is kept whole
pub fn kind_of(s: &str) -> &str {
    if s.starts_with("OutputFailure") {
        "OutputFailure"
    } else {
        s
    }
}

#[derive(Clone, Debug, Serialize, Deserialize, PartialEq)]
pub struct OpResult {
    pub outcome: Outcome,
    /// violations the observer saw fire during this op, in order
    pub fired: Vec<String>,
    pub accounted: usize,
    pub ud_calls: usize,
    pub model_total: usize,
    pub model_calls: usize,
    pub out_len: usize,
    pub mono_ns: u64,
    /// deepest user frame built during this op (0 = none)
    pub max_height: usize,
}

pub struct RunResult {
    pub ops: Vec<OpResult>,
    pub counters: Counters,
    pub hash: u64,
    pub out: Vec<u8>,
    pub problems: Vec<String>,
    pub log: Vec<Ev>,
    pub sites: Vec<String>,
    pub fired_sites: Vec<String>,
    pub final_accounted: usize,
    pub final_outstanding: usize,
    pub model_peak: usize,
    pub slept_ns: u64,
    pub late_enters: u64,
    pub events: u64,
}

impl RunResult {
    pub fn main_outcome(&self) -> &Outcome {
        // outcome of the last Run op, or of the first failing Instantiate
        for r in &self.ops {
            if let Outcome::Violation(_) | Outcome::Crash(_) = r.outcome {
                return &r.outcome;
            }
        }
        self.ops
            .iter()
            .rev()
            .find(|r| !matches!(r.outcome, Outcome::Unit))
            .map(|r| &r.outcome)
            .unwrap_or(&Outcome::Unit)
    }
}

fn panic_message(p: Box<dyn std::any::Any + Send>) -> String {
    if let Some(s) = p.downcast_ref::<&str>() {
        s.to_string()
    } else if let Some(s) = p.downcast_ref::<String>() {
        s.clone()
    } else {
        "<non-string panic>".to_string()
    }
}

thread_local! {
    static LAST_PANIC_LOC: std::cell::RefCell<String> = const { std::cell::RefCell::new(String::new()) };
}

/// install a quiet panic hook that remembers the location (once per process)
pub fn install_panic_hook() {
    std::panic::set_hook(Box::new(|info| {
        let loc = info.location().map(|l| format!("{}:{}", l.file(), l.line())).unwrap_or_default();
        let _ = LAST_PANIC_LOC.try_with(|c| *c.borrow_mut() = loc);
    }));
}

fn last_panic_loc() -> String {
    LAST_PANIC_LOC.with(|c| c.borrow().clone())
}

pub fn guarded<X>(f: impl FnOnce() -> X) -> Result<X, String> {
    catch_unwind(AssertUnwindSafe(f)).map_err(|p| format!("{} @ {}", panic_message(p), last_panic_loc()))
}

/// canonical dump over the public value enum
pub fn dump(v: &Val) -> Outcome {
    match v {
        Ok(v) => Outcome::Value(dump_value(&v.value)),
        Err(e) => Outcome::Error(e.error.clone()),
    }
}

pub fn dump_value(v: &XValue<W, R, T>) -> String {
    match v {
        XValue::Int(i) => format!("{i}"),
        XValue::Float(f) => format!("f{:016x}", f.to_bits()),
        XValue::String(s) => format!("{:?}", s.to_string()),
        XValue::Bool(b) => format!("{b}"),
        XValue::Function(_) => "<fn>".to_string(),
        XValue::StructInstance(items) => {
            let parts: Vec<String> = items.iter().map(|i| dump_value(&i.value)).collect();
            format!("({})", parts.join(","))
        }
        XValue::UnionInstance((idx, inner)) => format!("#{idx}({})", dump_value(&inner.value)),
        XValue::Native(_) => "<native>".to_string(),
    }
}

/// a host's own small root scope: no std library, only the native type `bool`
pub fn sandbox_scope() -> Scope {
    let mut scope: Scope = Scope::new();
    let _ = scope.add_native_type("bool", xray::xtype::X_BOOL.clone());
    scope
}

thread_local! {
    static USE_SANDBOX: std::cell::Cell<bool> = const { std::cell::Cell::new(false) };
}

/// the next `compile` calls on this thread use the sandbox root scope instead of the std library
pub fn set_sandbox(on: bool) {
    USE_SANDBOX.with(|c| c.set(on));
}

thread_local! {
    static SCOPE_PRELUDE: std::cell::RefCell<Vec<String>> = const { std::cell::RefCell::new(Vec::new()) };
    static PRELUDE_ACCEPTED: std::cell::Cell<bool> = const { std::cell::Cell::new(false) };
}

/// texts fed to the *same* compilation scope before the text under test by the next `compile` calls on
/// this thread; they are meant to be rejected (a rejected text must leave no trace on the scope)
pub fn set_scope_prelude(texts: Vec<String>) {
    SCOPE_PRELUDE.with(|p| *p.borrow_mut() = texts);
}

pub fn scope_prelude_hash() -> u64 {
    SCOPE_PRELUDE.with(|p| p.borrow().iter().fold(0x9e37_79b9_7f4a_7c15u64, |h, t| crate::prng::fnv(h, t.as_bytes())))
}

/// whether one of the prelude texts of the last compilation on this thread was accepted (the scenario then says nothing)
pub fn prelude_was_accepted() -> bool {
    PRELUDE_ACCEPTED.with(|c| c.get())
}

/// compile `text` on top of the std library under the *currently installed* world
pub fn compile_in_world(text: &str) -> Result<Scope, String> {
    let mut scope: Scope = if USE_SANDBOX.with(|c| c.get()) { sandbox_scope() } else { xray::std_compilation_scope() };
    PRELUDE_ACCEPTED.with(|c| c.set(false));
    let prelude = SCOPE_PRELUDE.with(|p| p.borrow().clone());
    for t in &prelude {
        if scope.feed_file(t).is_ok() {
            PRELUDE_ACCEPTED.with(|c| c.set(true));
        }
    }
    match scope.feed_file(text) {
        Ok(()) => Ok(scope),
        Err(e) => Err(format!("{e}")),
    }
}

thread_local! {
    static LAST_COMPILE: std::cell::RefCell<Counters> = std::cell::RefCell::new(Counters::default());
}

/// seam counters of the most recent `compile` on this thread
pub fn last_compile_counters() -> Counters {
    LAST_COMPILE.with(|c| c.borrow().clone())
}

/// compile under a throw-away world with the given environment; Err(Ok(msg)) = compile error,
/// Err(Err(msg)) = the compiler panicked
pub fn compile(text: &str, env: &EnvCfg) -> Result<Scope, Result<String, String>> {
    world::install(env.clone());
    let r = guarded(|| compile_in_world(text));
    let w = world::take();
    LAST_COMPILE.with(|c| *c.borrow_mut() = w.c.clone());
    match r {
        Ok(Ok(s)) => Ok(s),
        Ok(Err(e)) => Err(Ok(e)),
        Err(p) => Err(Err(p)),
    }
}

fn mk_limits(l: &Limits, perms: &Perms, perm_ops: &[(usize, bool)]) -> RuntimeLimits {
    RuntimeLimits {
        size_limit: l.size,
        depth_limit: l.depth,
        recursion_limit: l.recursion,
        ud_call_limit: l.ud_call,
        maximum_search: l.search,
        time_limit: l.time_ns.map(Duration::from_nanos),
        permissions: permission_set(perms, perm_ops),
    }
}

/// Execute the host operations of `sc` against an already compiled scope.
pub fn run_compiled(scope: &Scope, sc: &Scenario) -> RunResult {
    world::install(sc.env.clone());
    world::with(|w| {
        w.limits = sc.limits.clone();
        w.perms = sc.effective_perms();
        w.in_deadline_set = true;
    });
    let rt: RTCell<W, R, T> = mk_limits(&sc.limits, &sc.perms, &sc.perm_ops).to_runtime(SimWriter, SimClock);
    world::with(|w| w.in_deadline_set = false);

    let mut slots: Vec<Option<RootEvaluationScope<'_, W, R, T>>> = Vec::new();
    let mut results: Vec<Option<Val>> = Vec::new();
    let mut ops_out = Vec::with_capacity(sc.ops.len());

    for (i, op) in sc.ops.iter().enumerate() {
        world::with(|w| w.host_mark(i as u32));
        let outcome = match op {
            HostOp::Instantiate { slot } => {
                while slots.len() <= *slot {
                    slots.push(None);
                }
                let r = guarded(|| RootEvaluationScope::from_compilation_scope(scope, rt.clone()));
                match r {
                    Ok(Ok(es)) => {
                        slots[*slot] = Some(es);
                        Outcome::Unit
                    }
                    Ok(Err(v)) => Outcome::Violation(format!("{v:?}")),
                    Err(p) => Outcome::Crash(p),
                }
            }
            HostOp::Run { slot, func } => match slots.get(*slot).and_then(|s| s.as_ref()) {
                None => Outcome::Host("no scope".into()),
                Some(es) => {
                    let r = guarded(|| -> Result<Result<Val, String>, String> {
                        let f: &XFunction<W, R, T> = match es.get_user_defined_function(func) {
                            Ok(f) => f,
                            Err(e) => return Err(format!("{e:?}")),
                        };
                        Ok(match es.run_function(f, vec![]) {
                            Ok(v) => Ok(v.unwrap_value()),
                            Err(v) => Err(format!("{v:?}")),
                        })
                    });
                    match r {
                        Ok(Ok(Ok(v))) => {
                            let o = dump(&v);
                            results.push(Some(v));
                            o
                        }
                        Ok(Ok(Err(viol))) => Outcome::Violation(viol),
                        Ok(Err(h)) => Outcome::Host(h),
                        Err(p) => Outcome::Crash(p),
                    }
                }
            },
            HostOp::GetValue { slot, name } => match slots.get(*slot).and_then(|s| s.as_ref()) {
                None => Outcome::Host("no scope".into()),
                Some(es) => match guarded(|| es.get_value(name).map(|v| v.clone()).map_err(|e| format!("{e:?}"))) {
                    Ok(Ok(v)) => {
                        let o = dump(&v);
                        results.push(Some(v));
                        o
                    }
                    Ok(Err(h)) => Outcome::Host(h),
                    Err(p) => Outcome::Crash(p),
                },
            },
            HostOp::ResetCalls => {
                rt.reset_ud_calls();
                world::with(|w| w.on_reset_calls());
                Outcome::Unit
            }
            HostOp::ResetCallLimit => {
                rt.reset_call_limit();
                world::with(|w| w.on_reset_calls());
                Outcome::Unit
            }
            HostOp::ResetTimeout => {
                world::with(|w| w.in_deadline_set = true);
                rt.reset_timeout();
                world::with(|w| w.in_deadline_set = false);
                Outcome::Unit
            }
            HostOp::Advance { ns } => {
                world::with(|w| w.advance(*ns));
                Outcome::Unit
            }
            HostOp::DropResult { idx } => {
                if let Some(r) = results.get_mut(*idx) {
                    let v = r.take();
                    if let Err(p) = guarded(move || drop(v)) {
                        ops_out.push(op_result(Outcome::Crash(p), &rt));
                        continue;
                    }
                }
                Outcome::Unit
            }
            HostOp::DropAllResults => {
                let taken = std::mem::take(&mut results);
                match guarded(move || drop(taken)) {
                    Ok(()) => Outcome::Unit,
                    Err(p) => Outcome::Crash(p),
                }
            }
            HostOp::DropScope { slot } => {
                let s = slots.get_mut(*slot).and_then(|s| s.take());
                match guarded(move || drop(s)) {
                    Ok(()) => Outcome::Unit,
                    Err(p) => Outcome::Crash(p),
                }
            }
        };
        ops_out.push(op_result(outcome, &rt));
    }
    // final teardown: everything the host still holds
    let teardown = guarded(move || {
        drop(results);
        drop(slots);
    });
    let final_accounted = rt.verif_accounted_bytes();
    drop(rt);
    let mut w = world::take();
    if let Err(p) = teardown {
        w.problems.push(format!("crash during teardown: {p}"));
    }
    let fired_sites = w
        .all_fired_sites
        .iter()
        .map(|i| w.sites.get(*i as usize).cloned().unwrap_or_default())
        .collect();
    RunResult {
        ops: ops_out,
        counters: w.c.clone(),
        hash: w.hash,
        out: std::mem::take(&mut w.out),
        problems: std::mem::take(&mut w.problems),
        log: std::mem::take(&mut w.log),
        sites: std::mem::take(&mut w.sites),
        fired_sites,
        final_accounted,
        final_outstanding: w.outstanding.values().map(|n| *n as usize).sum(),
        model_peak: w.model_peak,
        slept_ns: w.slept_ns,
        late_enters: w.late_enters,
        events: w.seq,
    }
}

fn op_result(outcome: Outcome, rt: &RTCell<W, R, T>) -> OpResult {
    let accounted = rt.verif_accounted_bytes();
    let ud_calls = rt.verif_ud_calls();
    world::with(|w| OpResult {
        outcome,
        fired: w.take_fired(),
        accounted,
        ud_calls,
        model_total: w.model_total,
        model_calls: w.calls_since_reset,
        out_len: w.out.len(),
        mono_ns: w.mono_ns,
        max_height: std::mem::take(&mut w.op_max_height),
    })
}

/// compile + run; a compile error/panic is returned as Err
pub fn run_scenario(sc: &Scenario) -> Result<RunResult, Result<String, String>> {
    let scope = compile(&sc.program, &sc.env)?;
    Ok(run_compiled(&scope, sc))
}
