//! Fault-point enumeration shared by C06/C08 (and reused by others): from the event stream of
//! the fault-free reference run, derive for every budget kind the finite list of limit values at
//! which that budget can trip, and for the writer every (write index, fault kind).

use crate::checks::Base;
use crate::engine::Scenario;
use crate::prng::Prng;
use crate::world::{Ev, WFault};

#[derive(Clone, Debug, PartialEq)]
pub enum Kind {
    Size,
    Calls,
    Depth,
    Recursion,
    Search,
    Time,
    Writer,
}

impl Kind {
    pub fn name(&self) -> &'static str {
        match self {
            Kind::Size => "size",
            Kind::Calls => "calls",
            Kind::Depth => "depth",
            Kind::Recursion => "recursion",
            Kind::Search => "search",
            Kind::Time => "time",
            Kind::Writer => "writer",
        }
    }
    pub fn all() -> Vec<Kind> {
        vec![Kind::Size, Kind::Calls, Kind::Depth, Kind::Recursion, Kind::Search, Kind::Time, Kind::Writer]
    }
    pub fn parse(s: &str) -> Option<Kind> {
        Kind::all().into_iter().find(|k| k.name() == s)
    }
}

/// facts about the reference run that the exactness oracles use
#[derive(Clone, Debug, Default)]
pub struct Needs {
    /// counted calls over the whole history (no reset inside)
    pub calls: usize,
    /// deepest user frame
    pub height: usize,
    /// longest run of consecutive tail iterations
    pub tail: usize,
    pub allocs: usize,
    pub writes: usize,
    pub req_peak: usize,
}

pub fn needs(log: &[Ev]) -> Needs {
    let mut n = Needs::default();
    for e in log {
        match e {
            Ev::Call { .. } => n.calls += 1,
            Ev::Frame(h) => n.height = n.height.max(*h),
            Ev::Tail(t) => n.tail = n.tail.max(*t),
            Ev::Alloc { .. } => n.allocs += 1,
            Ev::Write { .. } => n.writes += 1,
            _ => {}
        }
    }
    n
}

/// all values 0..=hi if few, else boundaries plus a seeded sample
fn thin(lo: usize, hi: usize, max: usize, rng: &mut Prng) -> Vec<usize> {
    if hi < lo {
        return vec![];
    }
    let n = hi - lo + 1;
    if n <= max {
        return (lo..=hi).collect();
    }
    let mut v: Vec<usize> = vec![lo, lo + 1, lo + 2, hi - 2, hi - 1, hi];
    while v.len() < max {
        v.push(lo + rng.below(n as u64) as usize);
    }
    v.sort();
    v.dedup();
    v
}

pub const SEARCH_POINTS: [usize; 24] = [0, 1, 2, 3, 4, 5, 6, 7, 8, 10, 12, 16, 20, 24, 32, 48, 64, 100, 128, 256, 512, 1000, 1024, 4096];

#[derive(Clone, Debug)]
pub struct Point {
    pub kind: Kind,
    /// the limit value (or write index)
    pub value: usize,
    pub scenario: Scenario,
}

pub fn points(base: &Base, kinds: &[Kind], max_per_kind: usize, seed: u64) -> (Vec<Point>, Needs) {
    let nd = needs(&base.reference.log);
    let mut rng = Prng::new(seed);
    let mut out = vec![];
    let mk = |f: &dyn Fn(&mut Scenario)| {
        let mut sc = base.sc.clone();
        sc.env.record = false;
        f(&mut sc);
        sc
    };
    for k in kinds {
        match k {
            Kind::Size => {
                let (pts, peak, _) = crate::checks::c09::fault_points(&base.reference.log, 0);
                let mut vals: Vec<usize> = pts.iter().map(|p| p.0).collect();
                if vals.len() > max_per_kind {
                    // prefer the late ones (the program's own allocations) plus a sample
                    let tail: Vec<usize> = vals.iter().rev().take(max_per_kind / 2).cloned().collect();
                    rng.shuffle(&mut vals);
                    vals.truncate(max_per_kind / 2);
                    vals.extend(tail);
                    vals.sort();
                    vals.dedup();
                }
                vals.push(peak);
                for v in vals {
                    out.push(Point { kind: Kind::Size, value: v, scenario: mk(&|s| s.limits.size = Some(v)) });
                }
            }
            Kind::Calls => {
                for v in thin(1, nd.calls + 1, max_per_kind, &mut rng) {
                    out.push(Point { kind: Kind::Calls, value: v, scenario: mk(&|s| s.limits.ud_call = Some(v)) });
                }
            }
            Kind::Depth => {
                for v in thin(1, nd.height + 1, max_per_kind, &mut rng) {
                    out.push(Point { kind: Kind::Depth, value: v, scenario: mk(&|s| s.limits.depth = Some(v)) });
                }
            }
            Kind::Recursion => {
                for v in thin(0, nd.tail + 1, max_per_kind, &mut rng) {
                    out.push(Point { kind: Kind::Recursion, value: v, scenario: mk(&|s| s.limits.recursion = Some(v)) });
                }
            }
            Kind::Search => {
                for v in SEARCH_POINTS.iter().take(max_per_kind.max(8)) {
                    out.push(Point { kind: Kind::Search, value: *v, scenario: mk(&|s| s.limits.search = Some(*v)) });
                }
            }
            Kind::Time => {
                // one simulated ns per allocation event: the deadline falls between allocations
                for v in thin(0, nd.allocs + 1, max_per_kind, &mut rng) {
                    out.push(Point {
                        kind: Kind::Time,
                        value: v,
                        scenario: mk(&|s| {
                            s.limits.time_ns = Some(v as u64);
                            s.env.alloc_tick_ns = 1;
                            s.env.alloc_tick_every = 1;
                        }),
                    });
                }
            }
            Kind::Writer => {
                let faults = [WFault::Error, WFault::Zero, WFault::Interrupted, WFault::Short(1)];
                for v in thin(0, nd.writes.saturating_sub(1), max_per_kind, &mut rng) {
                    if nd.writes == 0 {
                        break;
                    }
                    for f in &faults {
                        let f = f.clone();
                        out.push(Point { kind: Kind::Writer, value: v, scenario: mk(&|s| s.env.writer = vec![(v as u64, f.clone())]) });
                    }
                }
            }
        }
    }
    for p in out.iter_mut() {
        p.scenario.label = format!("{} {}={}", base.sc.label, p.kind.name(), p.value);
    }
    (out, nd)
}
