use std::io::Read;
use xsim::engine::*;
use xsim::job::JobSpec;

fn usage() -> ! {
    eprintln!("usage: xsim check <property> <quick|thorough> | replay <file> | worker | locate <index> | try <file.xr> [func]");
    std::process::exit(2)
}

fn main() {
    let args: Vec<String> = std::env::args().collect();
    match args.get(1).map(|s| s.as_str()) {
        Some("worker") => xsim::sup::worker_main(),
        Some("check") => {
            install_panic_hook();
            let prop = args.get(2).unwrap_or_else(|| usage());
            let tier = args.get(3).map(|s| s.as_str()).unwrap_or("quick");
            let tier = std::env::var("VERIF_TIER").ok().filter(|t| t == "quick" || t == "thorough").unwrap_or(tier.to_string());
            match xsim::plans::plan(prop, &tier) {
                Some(p) => std::process::exit(xsim::report::execute(p)),
                None => {
                    eprintln!("harness error: no check for property {prop}");
                    std::process::exit(2)
                }
            }
        }
        Some("replay") => {
            let path = args.get(2).unwrap_or_else(|| usage());
            std::process::exit(xsim::report::replay(path))
        }
        Some("docsig-probe") => {
            install_panic_hook();
            let (calls, unparsed, unsynth) = xsim::docsig::calls();
            println!("calls={} unparsed={} unsynthesised={}", calls.len(), unparsed, unsynth);
            let (mut ok, mut cerr, mut viol, mut errv, mut crash) = (0, 0, 0, 0, 0);
            for c in &calls {
                let mut sc = Scenario::standard(&xsim::docsig::program(&c.call), Limits::calibration());
                sc.perms = [Some(true); 6];
                sc.limits.search = Some(100_000);
                sc.limits.ud_call = Some(200_000);
                sc.limits.size = Some(50_000_000);
                eprintln!("RUN {} :: {}", c.label, c.call);
                match run_scenario(&sc) {
                    Err(e) => { cerr += 1; if args.get(2).is_some() { println!("COMPILE {} :: {} :: {}", c.label, c.call, format!("{e:?}").chars().take(160).collect::<String>()); } }
                    Ok(r) => match r.main_outcome() {
                        Outcome::Value(_) => ok += 1,
                        Outcome::Error(e) => { errv += 1; println!("ERRVAL {} :: {} :: {e}", c.label, c.call); }
                        Outcome::Violation(v) => { viol += 1; println!("VIOL {} :: {} :: {v}", c.label, c.call); }
                        o => { crash += 1; println!("CRASH {} :: {} :: {:?}", c.label, c.call, o); }
                    },
                }
            }
            println!("ok={ok} compile_errors={cerr} error_values={errv} violations={viol} crashes={crash}");
        }
        Some("docerrval-probe") => {
            install_panic_hook();
            let (calls, _, _) = xsim::docsig::calls();
            for c in &calls {
                let text = format!("{}\nfn main()->str{{ get_error({}).or(\"<value>\") }}\n", xsim::docsig::PRELUDE, c.call);
                let mut sc = Scenario::standard(&text, Limits::calibration());
                sc.perms = [Some(true); 6];
                sc.limits.search = Some(100_000);
                sc.limits.ud_call = Some(200_000);
                if let Ok(r) = run_scenario(&sc) {
                    match r.main_outcome() {
                        Outcome::Value(v) if v != "\"<value>\"" => println!("ERRVAL {} :: {} :: {v}", c.label, c.call),
                        Outcome::Value(_) => {}
                        o => println!("OTHER {} :: {} :: {:?}", c.label, c.call, o),
                    }
                }
            }
        }
        Some("docerr-probe") => {
            install_panic_hook();
            let (calls, _, _) = xsim::docsig::calls();
            let (mut ok, mut bad, mut skip) = (0, 0, 0);
            for c in &calls {
                if xsim::docsig::ERROR_HANDLERS.contains(&c.name.as_str()) { skip += 1; continue; }
                for i in 0..c.args.len() {
                    let mut args = c.args.clone();
                    args[i] = format!("if(false, {}, error(\"E{}\"))", c.args[i], i + 1);
                    let call = format!("{}({})", c.name, args.join(", "));
                    let text = format!("{}\nfn main()->str{{ get_error({call}).or(\"<value>\") }}\n", xsim::docsig::PRELUDE);
                    let mut sc = Scenario::standard(&text, Limits::calibration());
                    sc.perms = [Some(true); 6];
                    sc.limits.search = Some(100_000);
                    sc.limits.ud_call = Some(200_000);
                    match run_scenario(&sc) {
                        Err(_) => skip += 1,
                        Ok(r) => {
                            let want = Outcome::Value(format!("\"E{}\"", i + 1));
                            if *r.main_outcome() == want { ok += 1 } else { bad += 1; println!("BAD {} arg{} :: {} :: {:?}", c.label, i + 1, call, r.main_outcome()); }
                        }
                    }
                }
            }
            println!("ok={ok} bad={bad} skipped={skip}");
        }
        Some("job") => {
            install_panic_hook();
            let spec: JobSpec = serde_json::from_str(args.get(2).unwrap_or_else(|| usage())).unwrap_or_else(|e| { eprintln!("{e}"); usage() });
            let h = std::thread::Builder::new().stack_size(1 << 30).spawn(move || xsim::job::run_job(&spec, &mut |_| {})).unwrap();
            let r = h.join().unwrap();
            println!("runs={} tuples={} notes={:?}", r.runs, r.tuples.len(), r.notes);
            println!("counters: fault_points={:?} alloc_fail={:?} preflight_fail={:?}", r.counters.get("fault_points"), r.counters.get("alloc_fail"), r.counters.get("preflight_fail"));
            for v in &r.violations {
                println!("VIOLATION {} | {} | {}", v.class, v.signature, v.detail.chars().take(300).collect::<String>());
            }
            for t in r.tuples.iter().take(12) {
                println!("  tuple {t}");
            }
        }
        Some("locate") => {
            install_panic_hook();
            let idx: usize = args.get(2).and_then(|s| s.parse().ok()).unwrap_or_else(|| usage());
            let mut s = String::new();
            std::io::stdin().read_to_string(&mut s).unwrap();
            let spec: JobSpec = serde_json::from_str(&s).unwrap_or_else(|_| usage());
            let h = std::thread::Builder::new().stack_size(1 << 30).spawn(move || xsim::job::locate(&spec, idx)).unwrap();
            match h.join().ok().flatten() {
                Some(sc) => println!("{}", serde_json::to_string(&sc).unwrap()),
                None => std::process::exit(3),
            }
        }
        Some("carriers-probe") => {
            install_panic_hook();
            let n_cat = xsim::carriers::CATCHERS.len();
            for (ci, c) in xsim::carriers::CARRIERS.iter().enumerate() {
                for k in 0..n_cat {
                    if ci != 0 && k != 0 { continue; }
                    let Some((label, text)) = xsim::carriers::program(ci, k) else { println!("{} BADTYPE", c.0); continue };
                    let mut sc = Scenario::standard(&text, Limits::calibration());
                    sc.perms = [Some(true); 6];
                    match run_scenario(&sc) {
                        Err(e) => println!("{label}: COMPILE {e:?}"),
                        Ok(r) => println!("{label}: {:?} calls={} writes={} problems={:?}", r.main_outcome(), r.counters.call_enters, r.counters.writes, r.problems),
                    }
                }
            }
        }
        Some("try") => {
            install_panic_hook();
            let path = args.get(2).unwrap_or_else(|| usage());
            let text = std::fs::read_to_string(path).expect("read program");
            let mut sc = Scenario::standard(&text, Limits::calibration());
            if let Some(f) = args.get(3) {
                sc.ops[1] = HostOp::Run { slot: 0, func: f.clone() };
            }
            sc.perms = [Some(true); 6];
            if let Ok(l) = std::env::var("XSIM_LIMITS") {
                let mut lim = Limits::calibration();
                for kv in l.split(',') {
                    let mut it = kv.split('=');
                    let (k, v) = (it.next().unwrap_or(""), it.next().and_then(|v| v.parse::<usize>().ok()));
                    match k {
                        "size" => lim.size = v,
                        "depth" => lim.depth = v,
                        "recursion" => lim.recursion = v,
                        "calls" => lim.ud_call = v,
                        "search" => lim.search = v,
                        "time" => lim.time_ns = v.map(|x| x as u64),
                        _ => {}
                    }
                }
                sc.limits = lim;
            }
            match run_scenario(&sc) {
                Err(e) => println!("COMPILE: {e:?}"),
                Ok(r) => {
                    for (i, o) in r.ops.iter().enumerate() {
                        println!("op{i}: {:?} accounted={} calls={}", o.outcome, o.accounted, o.ud_calls);
                    }
                    println!("out={:?}", String::from_utf8_lossy(&r.out));
                    println!("height={} tails={} frames={}", r.ops.iter().map(|o| o.max_height).max().unwrap_or(0), r.counters.tail_iters, r.counters.frames);
                    println!("problems={:?} final={} events={} enters={} peak={}", r.problems, r.final_accounted, r.events, r.counters.call_enters, r.model_peak);
                }
            }
        }
        _ => usage(),
    }
}
