use xsim::engine::*;
use xsim::corpus;

fn main() {
    install_panic_hook();
    let args: Vec<String> = std::env::args().collect();
    if args.get(1).map(|s| s.as_str()) == Some("probe") {
        let scripts = corpus::load_all();
        let mut n = 0;
        for s in &scripts {
            if s.expects_compile_error() || s.expects_violation() { continue; }
            let mut sc = Scenario::standard(&s.text, Limits::calibration());
            sc.env.record = true;
            if s.allowed("regex") { sc.perms[4] = Some(true); }
            if s.allowed("sleep") { sc.perms[5] = Some(true); }
            if let Some(now) = s.now() { sc.env.unix_base = now; sc.env.unix_step = 0.0; }
            let t0 = std::time::Instant::now();
            match run_scenario(&sc) {
                Err(e) => println!("{} COMPILE {:?}", s.id, e),
                Ok(r) => {
                    n += 1;
                    println!("{} {:?} ev={} allocs={} calls={} final={} outst={} problems={:?} {:?}us", s.id, r.main_outcome().class(), r.events, r.counters.alloc_ok, r.counters.call_enters, r.final_accounted, r.final_outstanding, r.problems, t0.elapsed().as_micros());
                }
            }
        }
        println!("ran {n}");
    }
}
