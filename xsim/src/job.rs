//! Jobs: the unit of work handed to a supervised worker process. A job is a deterministic function
//! of its `JobSpec`: it prepares (compile + calibration run), then yields an indexed list of
//! scenarios, runs each against the real code and judges the result against its reference.

use crate::engine::{self, RunResult, Scenario, Scope};
use crate::prng::fnv;
use crate::world::Counters;
use serde::{Deserialize, Serialize};
use std::collections::{BTreeMap, BTreeSet};

#[derive(Clone, Debug, Serialize, Deserialize)]
pub struct JobSpec {
    pub check: String,
    pub kind: String,
    pub seed: u64,
    pub tier: String,
    pub params: serde_json::Value,
}

#[derive(Clone, Debug, Serialize, Deserialize, PartialEq)]
pub struct Violation {
    pub property: String,
    /// broad class: balance, uncaught, crash, hang, mismatch, ...
    pub class: String,
    /// specific, stable identification of what fails (used for known-finding matching)
    pub signature: String,
    pub detail: String,
    pub check: String,
    pub scenario: Option<Scenario>,
    /// index of the job in the plan, where the violation is a worker death (the replay file then carries that job)
    #[serde(default)]
    pub job_index: Option<usize>,
}

#[derive(Clone, Debug, Default, Serialize, Deserialize)]
pub struct JobResult {
    pub runs: u64,
    pub sim_ns: u64,
    pub events: u64,
    pub counters: BTreeMap<String, u64>,
    pub tuples: BTreeSet<String>,
    pub sites: BTreeSet<String>,
    pub probes: BTreeMap<String, u64>,
    pub violations: Vec<Violation>,
    pub samples: Vec<serde_json::Value>,
    pub notes: Vec<String>,
    /// hash over the event-log hashes of all runs, in order
    pub trace_hash: u64,
    /// the most expensive single scenario (thread CPU milliseconds, label): how far the workload stays from the
    /// hang budget. Wall-clock dependent, so kept out of the trace hash and out of every verdict.
    #[serde(default)]
    pub slowest: Option<(u64, String)>,
}

impl JobResult {
    pub fn add_counters(&mut self, c: &Counters) {
        let v = serde_json::to_value(c).unwrap();
        if let serde_json::Value::Object(m) = v {
            for (k, val) in m {
                *self.counters.entry(k).or_insert(0) += val.as_u64().unwrap_or(0);
            }
        }
    }
    pub fn count(&mut self, key: &str, n: u64) {
        *self.counters.entry(key.to_string()).or_insert(0) += n;
    }
    pub fn probe(&mut self, key: &str) {
        *self.probes.entry(key.to_string()).or_insert(0) += 1;
    }
    pub fn absorb_run(&mut self, r: &RunResult) {
        self.runs += 1;
        self.events += r.events;
        self.sim_ns = self.sim_ns.saturating_add(r.ops.last().map_or(0, |o| o.mono_ns));
        self.add_counters(&r.counters);
        for s in &r.fired_sites {
            if !self.sites.contains(s) {
                self.sites.insert(s.clone());
            }
        }
        self.trace_hash = fnv(self.trace_hash, &r.hash.to_le_bytes());
    }
    pub fn merge(&mut self, o: JobResult) {
        self.runs += o.runs;
        self.sim_ns = self.sim_ns.saturating_add(o.sim_ns);
        self.events += o.events;
        for (k, v) in o.counters {
            *self.counters.entry(k).or_insert(0) += v;
        }
        self.tuples.extend(o.tuples);
        self.sites.extend(o.sites);
        for (k, v) in o.probes {
            *self.probes.entry(k).or_insert(0) += v;
        }
        for v in o.violations {
            self.violate(v);
        }
        for s in o.samples {
            if self.samples.len() < 12 {
                self.samples.push(s);
            }
        }
        self.notes.extend(o.notes);
        if let Some(x) = o.slowest {
            if self.slowest.as_ref().map_or(true, |s| x.0 > s.0) {
                self.slowest = Some(x);
            }
        }
        self.trace_hash = fnv(self.trace_hash, &o.trace_hash.to_le_bytes());
    }
    pub fn violate(&mut self, v: Violation) {
        // one report per (property, signature) and job is enough
        if self.violations.len() < 40
            && !self.violations.iter().any(|x| x.property == v.property && x.signature == v.signature)
        {
            self.violations.push(v);
        }
    }
}

pub enum Exec {
    Run(RunResult),
    CompileError(String),
    CompilePanic(String),
}

/// compiles on demand and keeps the last compiled program
#[derive(Default)]
pub struct Executor {
    cache: Option<(u64, Scope)>,
    pub compiles: u64,
}

impl Executor {
    fn key(sc: &Scenario) -> u64 {
        let mut h = fnv(0xcbf2_9ce4_8422_2325, sc.program.as_bytes());
        h = fnv(h, &[sc.label.starts_with("sandbox:") as u8]);
        h = fnv(h, &sc.env.compile_layout_seed.to_le_bytes());
        h = fnv(h, &sc.env.id_skip_seed.to_le_bytes());
        h = fnv(h, &engine::scope_prelude_hash().to_le_bytes());
        fnv(h, &sc.env.id_skip_max.to_le_bytes())
    }

    pub fn exec(&mut self, sc: &Scenario) -> Exec {
        let key = Self::key(sc);
        if self.cache.as_ref().map_or(true, |(k, _)| *k != key) {
            self.cache = None;
            self.compiles += 1;
            engine::set_sandbox(sc.label.starts_with("sandbox:"));
            let compiled = engine::compile(&sc.program, &sc.env);
            engine::set_sandbox(false);
            match compiled {
                Ok(scope) => self.cache = Some((key, scope)),
                Err(Ok(msg)) => return Exec::CompileError(msg),
                Err(Err(p)) => return Exec::CompilePanic(p),
            }
        }
        let scope = &self.cache.as_ref().unwrap().1;
        Exec::Run(engine::run_compiled(scope, sc))
    }
}

/// A prepared job
pub trait Job {
    fn len(&self) -> usize;
    fn scenario(&mut self, i: usize) -> Scenario;
    fn judge(&mut self, i: usize, sc: &Scenario, r: Exec, out: &mut JobResult);
    fn finish(&mut self, _out: &mut JobResult) {}
}

pub const PREP: i64 = -1;

/// run a whole job in this process, reporting progress through `progress`
pub fn run_job(spec: &JobSpec, progress: &mut dyn FnMut(i64)) -> JobResult {
    let mut out = JobResult::default();
    let mut ex = Executor::default();
    progress(PREP);
    let mut job = match crate::checks::make(spec, &mut ex, &mut out) {
        Some(j) => j,
        None => return out,
    };
    let only: Option<usize> = spec.params.get("only_index").and_then(|v| v.as_u64()).map(|v| v as usize);
    let start: usize = spec.params.get("start_index").and_then(|v| v.as_u64()).unwrap_or(0) as usize;
    for i in start..job.len() {
        if let Some(o) = only {
            if o != i {
                continue;
            }
        }
        progress(i as i64);
        let t0 = thread_cpu_ms();
        let sc = job.scenario(i);
        let r = ex.exec(&sc);
        job.judge(i, &sc, r, &mut out);
        let dt = thread_cpu_ms().saturating_sub(t0);
        if out.slowest.as_ref().map_or(true, |s| dt > s.0) {
            out.slowest = Some((dt, sc.label.chars().take(160).collect()));
        }
    }
    job.finish(&mut out);
    out.count("compiles", ex.compiles);
    out
}

fn thread_cpu_ms() -> u64 {
    let mut ts = libc::timespec { tv_sec: 0, tv_nsec: 0 };
    unsafe { libc::clock_gettime(libc::CLOCK_THREAD_CPUTIME_ID, &mut ts) };
    ts.tv_sec as u64 * 1000 + ts.tv_nsec as u64 / 1_000_000
}

/// regenerate the scenario a job would run at `index` without running it
pub fn locate(spec: &JobSpec, index: usize) -> Option<Scenario> {
    let mut out = JobResult::default();
    let mut ex = Executor::default();
    let mut job = crate::checks::make(spec, &mut ex, &mut out)?;
    if index < job.len() {
        Some(job.scenario(index))
    } else {
        None
    }
}
