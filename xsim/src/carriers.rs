//! Templates for C06: a "work" function that consumes every budget kind (user calls, frames, tail
//! iterations, search steps, allocations, output writes) placed under every catcher the language
//! has and inside every higher-order native, so that each limit/seam fault lands while a native
//! that could swallow it is on the stack.

/// common prelude: v_w(n) = 7n and has visible effects
pub const PRELUDE: &str = r#"
fn v_d(v_n: int)->int{ if(v_n == 0, 0, 1 + v_d(v_n - 1)) }
fn v_l(v_n: int, v_a: int)->int{ if(v_n == 0, v_a, v_l(v_n - 1, v_a + 2)) }
fn v_w(v_n: int)->int{ v_d(v_n) + v_l(v_n, 0) + count().nth(0, (v_x: int)->{v_x >= v_n}).value() + ("ab" * v_n).len() + display(v_n) }
fn v_cb(v_x: int)->int{ v_w(v_x % 3 + 1) }
fn v_p(v_x: int)->bool{ v_w(1) > 0 && v_x % 2 == 0 }
fn v_c(v_a: int, v_b: int)->int{ v_w(1) * 0 + cmp(v_a % 5, v_b % 5) }
fn v_e(v_a: int, v_b: int)->bool{ v_w(1) > 0 && v_a % 4 == v_b % 4 }
fn v_h(v_a: int)->int{ v_w(1) * 0 + v_a % 4 }
fn v_agg(v_a: int, v_b: int)->int{ v_w(1) + v_a + v_b }
fn v_fb()->int{ display("FALLBACK!").len() }
struct V_S(v_k: int)
fn eq(v_a: V_S, v_b: V_S)->bool{ v_w(1) > 0 && v_a::v_k == v_b::v_k }
fn cmp(v_a: V_S, v_b: V_S)->int{ v_w(1) * 0 + cmp(v_a::v_k, v_b::v_k) }
fn hash(v_a: V_S)->int{ v_w(1) * 0 + v_a::v_k % 3 }
fn to_str(v_a: V_S)->str{ "S" + v_w(1).to_str() }
fn v_ss(v_n: int)->Sequence<V_S>{ range(v_n).map((v_i: int)->{V_S(v_i % 4)}).to_array() }
"#;

/// (name, type of main, expression) — the tripping work happens inside the native named
pub const CARRIERS: &[(&str, &str, &str)] = &[
    ("direct", "int", "v_w(4)"),
    // ---- sequences
    ("seq.map", "int", "range(5).map(v_cb).to_array().get(4)"),
    ("seq.map.lazy-get", "int", "range(5).map(v_cb).get(3)"),
    ("seq.nth", "int", "range(10).nth(2, v_p).value()"),
    ("seq.take_while", "int", "range(10).take_while((v_x: int)->{v_p(v_x) || v_x < 3}).len()"),
    ("seq.skip_until", "int", "range(10).skip_until((v_x: int)->{v_p(v_x) && v_x > 3}).get(0)"),
    ("seq.sort", "int", "[5, 3, 9, 1, 4, 8, 2].sort(v_c).get(0)"),
    ("seq.sort_reverse", "int", "[5, 3, 9, 1, 4, 8, 2].sort_reverse(v_c).get(0)"),
    ("seq.n_largest", "int", "[5, 3, 9, 1, 4, 8, 2].n_largest(2, v_c).len()"),
    ("seq.n_smallest", "int", "[5, 3, 9, 1, 4, 8, 2].n_smallest(2, v_c).len()"),
    ("seq.nth_smallest", "int", "[5, 3, 9, 1, 4, 8, 2].nth_smallest(2, v_c)"),
    ("seq.nth_largest", "int", "[5, 3, 9, 1, 4, 8, 2].nth_largest(2, v_c)"),
    ("seq.median", "int", "[5, 3, 9, 1, 4].median(v_c)"),
    ("seq.reduce", "int", "range(4).reduce(0, v_agg)"),
    ("seq.reduce2", "int", "range(1, 5).reduce(v_agg)"),
    ("seq.filter", "int", "range(6).filter(v_p).to_array().len()"),
    ("seq.any", "bool", "range(6).any((v_x: int)->{v_p(v_x) && v_x > 3})"),
    ("seq.all", "bool", "range(6).all((v_x: int)->{v_p(v_x) || v_x > 0 - 1})"),
    ("seq.first", "int", "range(6).first((v_x: int)->{v_p(v_x) && v_x > 1}).value()"),
    ("seq.last", "int", "range(6).last(v_p).value()"),
    ("seq.count-pred", "int", "range(6).count(v_p)"),
    ("seq.count-eq", "int", "range(9).count(1, v_e)"),
    ("seq.contains-eq", "bool", "range(9).contains(7, v_e)"),
    ("seq.max-lt", "int", "[3, 9, 4].max((v_a: int, v_b: int)->{v_w(1) > 0 && v_a < v_b})"),
    ("seq.min-lt", "int", "[3, 9, 4].min((v_a: int, v_b: int)->{v_w(1) > 0 && v_a < v_b})"),
    ("seq.aggregate", "int", "range(4).aggregate(0, v_agg).to_array().len()"),
    ("seq.binary_search", "int", "range(20).binary_search((v_x: int)->{v_w(1) * 0 + cmp(v_x, 13)}).value()"),
    ("seq.bisect", "int", "range(20).bisect((v_x: int)->{v_w(1) > 0 && v_x < 7})"),
    ("seq.rank_eq", "int", "[5, 3, 9, 1].rank_eq(5, v_c)"),
    ("seq.dyn-eq", "bool", "v_ss(5) == v_ss(5)"),
    ("seq.dyn-cmp", "int", "cmp(v_ss(5), v_ss(6))"),
    ("seq.dyn-hash", "bool", "hash(v_ss(4)) >= 0"),
    ("seq.dyn-to_str", "int", "v_ss(3).to_str().len()"),
    ("seq.dyn-sort", "int", "v_ss(6).sort().len()"),
    ("seq.dyn-contains", "bool", "v_ss(6).contains(V_S(2))"),
    ("seq.dyn-distinct", "int", "v_ss(7).to_generator().distinct().to_array().len()"),
    ("seq.dyn-max", "int", "v_ss(5).max()::v_k"),
    // ---- generators
    ("gen.map", "int", "range(5).to_generator().map(v_cb).to_array().len()"),
    ("gen.filter", "int", "range(6).to_generator().filter(v_p).to_array().len()"),
    ("gen.take_while", "int", "count().to_generator().take_while((v_x: int)->{v_p(v_x) || v_x < 3}).len()"),
    ("gen.skip_until", "int", "count().to_generator().skip_until((v_x: int)->{v_p(v_x) && v_x > 2}).get(0)"),
    ("gen.aggregate", "int", "range(4).to_generator().aggregate(0, v_agg).last()"),
    ("gen.aggregate2", "int", "range(1, 5).to_generator().aggregate(v_agg).last()"),
    ("gen.successors", "int", "successors(1, (v_x: int)->{v_w(1) + v_x}).get(3)"),
    ("gen.successors_until", "int", "successors_until(1, (v_x: int)->{if(v_x > 30, none(), some(v_w(1) + v_x))}).len()"),
    ("gen.group", "int", "range(8).to_generator().group(v_e).len()"),
    ("gen.nth", "int", "count().to_generator().nth(1, v_p).value()"),
    ("gen.reduce", "int", "range(4).to_generator().reduce(0, v_agg)"),
    ("gen.any", "bool", "range(6).to_generator().any((v_x: int)->{v_p(v_x) && v_x > 3})"),
    ("gen.all", "bool", "range(6).to_generator().all((v_x: int)->{v_p(v_x) || v_x > 0 - 1})"),
    ("gen.first", "int", "count().to_generator().first((v_x: int)->{v_p(v_x) && v_x > 1}).value()"),
    ("gen.count", "int", "range(6).to_generator().count(v_p)"),
    ("gen.contains", "bool", "range(9).to_generator().contains(7, v_e)"),
    ("gen.distinct", "int", "range(9).to_generator().distinct(v_h, v_e).to_array().len()"),
    ("gen.with_count", "int", "range(9).to_generator().with_count(v_h, v_e).to_array().len()"),
    ("gen.max", "int", "range(5).to_generator().max((v_a: int, v_b: int)->{v_w(1) > 0 && v_a < v_b})"),
    ("gen.zip-map", "int", "zip(range(4).to_generator().map(v_cb), count().to_generator()).to_array().len()"),
    ("gen.chain-map", "int", "(range(3).to_generator().map(v_cb) + range(2).to_generator().map(v_cb)).to_array().len()"),
    ("gen.windows-map", "int", "range(5).to_generator().map(v_cb).windows(2).len()"),
    // callbacks that use no search budget themselves, so that a search limit lands inside the built-in
    ("plain.gen-windows", "int", "range(14).to_generator().map((v_x: int)->{v_x + 1}).windows(3).len()"),
    ("plain.gen-windows-last", "int", "range(9).to_generator().windows(2).last().len()"),
    ("plain.gen-chunks", "int", "range(14).to_generator().map((v_x: int)->{v_x + 1}).chunks(3).len()"),
    ("plain.seq-cmp", "int", "cmp(range(14).map((v_x: int)->{v_x + 1}).to_array(), range(1, 14).to_array() + [99])"),
    ("plain.seq-cmp-equal", "int", "cmp(range(14).map((v_x: int)->{v_x + 1}), range(1, 15).to_array())"),
    ("plain.seq-lt", "bool", "range(14).map((v_x: int)->{v_x + 1}).to_array() < range(1, 14).to_array() + [99]"),
    ("plain.seq-eq", "bool", "range(14).map((v_x: int)->{v_x + 1}).to_array() == range(1, 15).to_array()"),
    ("plain.seq-sort-of-seqs", "int", "[range(1, 15).to_array(), range(14).map((v_x: int)->{v_x + 1}).to_array(), range(1, 14).to_array() + [0]].sort().get(0).get(13)"),
    ("plain.seq-nth-back", "int", "range(14).map((v_x: int)->{v_x + 1}).nth(0 - 2, (v_x: int)->{v_x < 4}).value()"),
    ("plain.seq-last", "int", "range(14).map((v_x: int)->{v_x + 1}).last((v_x: int)->{v_x < 4}).value()"),
    ("plain.gen-skip-until", "int", "range(14).to_generator().skip_until((v_x: int)->{v_x > 9}).len()"),
    ("plain.gen-filter", "int", "range(14).to_generator().filter((v_x: int)->{v_x > 9}).len()"),
    ("plain.gen-distinct", "int", "range(14).to_generator().map((v_x: int)->{v_x % 5}).distinct().len()"),
    ("plain.seq-contains", "bool", "range(14).map((v_x: int)->{v_x + 1}).contains(13)"),
    ("plain.seq-count", "int", "range(14).map((v_x: int)->{v_x + 1}).count((v_x: int)->{v_x > 9})"),
    ("plain.seq-hash", "bool", "hash(range(14).map((v_x: int)->{v_x + 1}).to_array()) == hash(range(1, 15).to_array())"),
    ("plain.seq-to_str", "int", "range(14).map((v_x: int)->{v_x + 1}).to_array().to_str().len()"),
    ("gen.map-get-later", "int", "range(5).to_generator().map(v_cb).get(3)"),
    ("gen.map-last", "int", "range(4).to_generator().map(v_cb).last()"),
    ("gen.map-min", "int", "range(4).to_generator().map(v_cb).min()"),
    ("gen.map-skip-get", "int", "range(5).to_generator().map(v_cb).skip(2).get(1)"),
    // (every element does the same work, so that which elements the random source picks does not show)
    ("seq.map-sample-pick", "int", "range(1000).map((v_x: int)->{ v_cb(1) }).sample(2).len()"),
    ("seq.map-sample-pool", "int", "range(8).map((v_x: int)->{ v_cb(1) }).sample(3).len()"),
    ("seq.map-shuffle", "int", "range(5).map((v_x: int)->{ v_cb(1) }).shuffle().len()"),
    ("seq.map-random_choices", "int", "range(5).map((v_x: int)->{ v_cb(1) }).random_choices(3).map((v_x: int)->{ v_x }).to_array().len()"),
    ("gen.product-restart", "int", "product(range(3).to_generator(), [1].to_generator().map(v_cb)).to_array().len()"),
    ("map.update_from_keys-occupied", "int", "mapping<int>().set(1, 1).update_from_keys([1, 1, 2], (v_k: int)->{v_w(1)}, (v_k: int, v_v: int)->{v_w(1) + v_v}).len()"),
    // natives that walk a lazy sequence twice or in lock-step with another one
    ("seq.map-set", "int", "range(5).map(v_cb).set(2, 9).len()"),
    ("seq.map-pop", "int", "range(5).map(v_cb).pop(2).len()"),
    ("seq.map-insert", "int", "range(5).map(v_cb).insert(2, 9).len()"),
    ("seq.map-cmp-longer-left", "int", "cmp(range(4).map(v_cb), range(3).map(v_cb).to_array())"),
    ("seq.map-cmp-longer-right", "int", "cmp(range(3).map(v_cb).to_array(), range(4).map(v_cb))"),
    ("seq.map-eq-unequal-lengths", "bool", "range(4).map(v_cb) == range(3).map(v_cb).to_array()"),
    ("seq.map-zip-unequal", "int", "zip(range(4).map(v_cb), range(2).map(v_cb)).to_array().len()"),
    ("gen.map-zip-unequal", "int", "zip(range(4).to_generator().map(v_cb), range(2).to_generator().map(v_cb)).to_array().len()"),
    ("gen.chunks-map", "int", "range(5).to_generator().map(v_cb).chunks(2).len()"),
    ("gen.enumerate-map", "int", "range(4).to_generator().map(v_cb).enumerate().to_array().len()"),
    ("gen.take-skip-map", "int", "count().to_generator().map(v_cb).skip(1).take(3).to_array().len()"),
    ("gen.repeat-map", "int", "range(2).to_generator().map(v_cb).repeat(2).len()"),
    ("gen.flatten-map", "int", "range(3).to_generator().map((v_x: int)->{range(2).to_generator().map(v_cb)}).flatten().len()"),
    ("gen.product-map", "int", "product(range(2).to_generator().map(v_cb), range(2).to_generator()).to_array().len()"),
    ("gen.join", "int", "range(3).to_generator().map((v_x: int)->{v_cb(v_x).to_str()}).join(\",\").len()"),
    ("gen.sum", "int", "range(4).to_generator().map(v_cb).sum(0)"),
    ("gen.mean", "bool", "range(4).to_generator().map(v_cb).mean() > 0.0"),
    // ---- mappings and sets with user hash / eq
    ("map.set", "int", "mapping(v_h, v_e).set(1, 10).set(5, 50).set(2, 20).len()"),
    ("map.lookup", "int", "mapping(v_h, v_e).set(1, 10).set(2, 20).lookup(5).value()"),
    ("map.get-default", "int", "mapping(v_h, v_e).set(1, 10).get(3, 0 - 1)"),
    ("map.contains", "bool", "mapping(v_h, v_e).set(1, 10).set(2, 20).contains(6)"),
    ("map.discard", "int", "mapping(v_h, v_e).set(1, 10).set(2, 20).discard(5).len()"),
    ("map.pop", "int", "mapping(v_h, v_e).set(1, 10).set(2, 20).pop(5).len()"),
    ("map.set_default", "int", "mapping(v_h, v_e).set(1, 10).set_default(5, 9).set_default(3, 7).len()"),
    ("map.update-gen", "int", "mapping(v_h, v_e).update(range(6).to_generator().map((v_x: int)->{(v_x, v_x)})).len()"),
    ("map.update_from_keys", "int", "mapping(v_h, v_e).update_from_keys(range(6), (v_k: int)->{v_w(1)}, (v_k: int, v_v: int)->{v_w(1) + v_v}).len()"),
    ("map.update_counter", "int", "mapping(v_h, v_e).update_counter(range(7).to_generator()).len()"),
    ("map.map_values", "int", "mapping(v_h, v_e).set(1, 10).set(2, 20).map_values(v_cb).len()"),
    ("map.dyn-eq", "bool", "mapping(v_h, v_e).set(1, 10) == mapping(v_h, v_e).set(5, 10)"),
    ("map.dyn-keys", "int", "mapping<V_S>().set(V_S(1), 1).set(V_S(4), 2).set(V_S(1), 3).len()"),
    ("set.add", "int", "set(v_h, v_e).add(1).add(5).add(2).len()"),
    ("set.contains", "bool", "set(v_h, v_e).add(1).add(2).contains(6)"),
    ("set.remove", "int", "set(v_h, v_e).add(1).add(2).remove(5).len()"),
    ("set.discard", "int", "set(v_h, v_e).add(1).add(2).discard(7).len()"),
    ("set.update", "int", "set(v_h, v_e).update(range(7)).len()"),
    ("set.or", "int", "(set(v_h, v_e).update(range(3)) | set(v_h, v_e).update(range(2, 6))).len()"),
    ("set.and", "int", "(set(v_h, v_e).update(range(3)) & set(v_h, v_e).update(range(2, 6))).len()"),
    ("set.sub", "int", "(set(v_h, v_e).update(range(3)) - set(v_h, v_e).update(range(2, 6))).len()"),
    ("set.xor", "int", "(set(v_h, v_e).update(range(3)) ^ set(v_h, v_e).update(range(2, 6))).len()"),
    ("set.le", "bool", "set(v_h, v_e).update(range(3)) <= set(v_h, v_e).update(range(6))"),
    ("set.eq", "bool", "set(v_h, v_e).update(range(3)) == set(v_h, v_e).update(range(4, 7))"),
    ("set.is_disjoint", "bool", "set(v_h, v_e).update(range(2)).is_disjoint(set(v_h, v_e).update(range(2, 4)))"),
    ("set.dyn", "int", "set<V_S>().update(v_ss(6)).len()"),
    // ---- optionals, tuples, stacks, misc dynamic dispatch
    ("opt.map", "int", "some(2).map(v_cb).value()"),
    ("opt.map_or", "int", "some(2).map_or(v_cb, 0)"),
    ("opt.dyn-eq", "bool", "some(V_S(1)) == some(V_S(1))"),
    ("opt.dyn-to_str", "int", "some(V_S(1)).to_str().len()"),
    ("opt.dyn-hash", "bool", "hash(some(V_S(1))) >= 0"),
    ("tuple.dyn-eq", "bool", "(V_S(1), 2) == (V_S(1), 2)"),
    ("tuple.dyn-cmp", "int", "cmp((V_S(1), 2), (V_S(1), 3))"),
    ("tuple.dyn-hash", "bool", "hash((V_S(1), 2)) >= 0"),
    ("tuple.dyn-to_str", "int", "(V_S(1), 2).to_str().len()"),
    ("stack.dyn-eq", "bool", "stack().push(V_S(1)).push(V_S(2)) == stack().push(V_S(1)).push(V_S(2))"),
    ("generic.ne", "bool", "V_S(1) != V_S(2)"),
    ("generic.lt", "bool", "V_S(1) < V_S(2)"),
    ("generic.ge", "bool", "V_S(1) >= V_S(2)"),
    ("generic.max", "int", "max(V_S(1), V_S(2))::v_k"),
    ("generic.display", "int", "display(V_S(3))::v_k"),
    ("generic.partial", "int", "partial(v_agg, 3)(4)"),
    ("generic.to_cmp", "int", "[5, 3, 9].sort(to_cmp(v_cb)).get(0)"),
    ("str.format", "int", "f\"{v_w(2)}-{V_S(1)}\".len()"),
    ("str.join", "int", "range(3).map((v_x: int)->{v_cb(v_x).to_str()}).to_array().join(\",\").len()"),
    ("big-string", "int", "(\"ab\" * 3000).len()"),
    ("big-concat", "int", "(\"a\" * 3000 + \"b\" * 3000).len()"),
    ("big-seq-concat", "int", "(range(400).to_array() + range(400).to_array()).to_array().len()"),
    ("big-array", "int", "range(600).to_array().len()"),
    ("big-int", "bool", "2 ** 20000 > 0"),
    ("big-error-message", "int", "if_error(cast<Optional<int>>(none()).value(\"m\" * 3000), 0 - 1)"),
    ("assert.false-cond", "bool", "is_error(assert(v_w(2) == 0 - 1))"),
    ("assert.true-cond", "bool", "assert(v_w(2) == 14)"),
    ("default-param", "int", "((v_x: int, v_y: int ?= v_w(2))->{v_x + v_y})(1)"),
    ("closure-captured", "int", "((v_k: int)->{ (v_x: int)->{v_w(v_k) + v_x} })(2)(3)"),
];

/// (name, template with {X} for the tripping expression of type {T}); result type int
pub const CATCHERS: &[(&str, &str)] = &[
    ("none", "{X}"),
    ("if_error-2", "if_error({X}, v_fb())"),
    ("if_error-3", "if_error({X}, \"x\", v_fb())"),
    ("is_error", "if(is_error({X}), v_fb(), 1)"),
    ("get_error", "if(get_error({X}).has_value(), v_fb(), 1)"),
    ("or-rhs", "if(false || ({X}) > 0 - 1000, 1, v_fb())"),
    ("and-rhs", "if(true && ({X}) > 0 - 1000, 1, v_fb())"),
    ("then", "true.then({X}).or(v_fb())"),
    ("opt-or", "none().or({X}) + if_error(error(\"e\"), 0)"),
    ("opt-map_or", "some(0).map_or((v_z: int)->{ {X} }, v_fb())"),
    ("opt-and", "some(1).and(some({X})).value()"),
    ("if-branch", "if(v_d(1) == 1, {X}, v_fb())"),
    ("nested", "if_error(if_error(if({X} > 0 - 1000, error(\"inner\"), 3), \"nomatch\", v_fb()), 5)"),
    ("in-tuple", "({X}, v_fb())::item0"),
    ("in-array", "[{X}, 2].len()"),
    ("assert-false", "if(is_error(assert(({X}) == 0 - 12345)), 1, v_fb())"),
    ("arg-of-error-handler", "if_error(v_d(0) + {X}, v_fb())"),
];

pub fn program(carrier: usize, catcher: usize) -> Option<(String, String)> {
    let (cname, cty, cexpr) = CARRIERS.get(carrier)?;
    let (kname, ktpl) = CATCHERS.get(catcher)?;
    let as_int = match *cty {
        "int" => cexpr.to_string(),
        "bool" => format!("if({cexpr}, 1, 0)"),
        _ => return None,
    };
    let body = ktpl.replace("{X}", &as_int);
    // ballast: a live top-level value larger than the transient peak of instantiating the std
    // library, so that every allocation made by main() raises the running maximum and is therefore
    // a point where a size limit can land
    let ballast = "b".repeat(1400);
    let text = format!("let v_ballast = \"{ballast}\";\n{PRELUDE}\nfn main()->int{{ {body} }}\n");
    Some((format!("{cname}@{kname}"), text))
}
