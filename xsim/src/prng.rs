//! The only source of randomness in the harness: SplitMix64 seeded from VERIF_SEED.

#[derive(Clone, Debug)]
pub struct Prng(pub u64);

impl Prng {
    pub fn new(seed: u64) -> Self {
        Prng(seed ^ 0xD1B5_4A32_D192_ED03)
    }
    pub fn next_u64(&mut self) -> u64 {
        self.0 = self.0.wrapping_add(0x9E37_79B9_7F4A_7C15);
        let mut z = self.0;
        z = (z ^ (z >> 30)).wrapping_mul(0xBF58_476D_1CE4_E5B9);
        z = (z ^ (z >> 27)).wrapping_mul(0x94D0_49BB_1331_11EB);
        z ^ (z >> 31)
    }
    /// uniform in 0..n (n > 0)
    pub fn below(&mut self, n: u64) -> u64 {
        debug_assert!(n > 0);
        ((self.next_u64() as u128 * n as u128) >> 64) as u64
    }
    pub fn range(&mut self, lo: i64, hi_incl: i64) -> i64 {
        lo + self.below((hi_incl - lo + 1) as u64) as i64
    }
    pub fn chance(&mut self, num: u64, den: u64) -> bool {
        self.below(den) < num
    }
    pub fn pick<'a, X>(&mut self, xs: &'a [X]) -> &'a X {
        &xs[self.below(xs.len() as u64) as usize]
    }
    pub fn fork(&mut self) -> Prng {
        Prng::new(self.next_u64())
    }
    pub fn shuffle<X>(&mut self, xs: &mut [X]) {
        for i in (1..xs.len()).rev() {
            let j = self.below(i as u64 + 1) as usize;
            xs.swap(i, j);
        }
    }
}

/// derive an independent stream from a base seed and a label/index
pub fn derive(seed: u64, label: &str, index: u64) -> u64 {
    let mut h = Prng::new(seed);
    let mut acc = h.next_u64();
    for b in label.bytes() {
        acc = (acc ^ b as u64).wrapping_mul(0x100_0000_01B3);
    }
    let mut p = Prng::new(acc ^ index.wrapping_mul(0x9E37_79B9_7F4A_7C15));
    p.next_u64()
}

pub fn fnv(acc: u64, bytes: &[u8]) -> u64 {
    let mut h = acc;
    for b in bytes {
        h ^= *b as u64;
        h = h.wrapping_mul(0x100_0000_01B3);
    }
    h
}
