//! Template programs. Every identifier a template introduces carries a `v_` prefix (the root
//! scope already binds short names such as `e` and `pi`).

/// programs that build each kind of value; each has `main()->bool` and `v_aux()`
pub fn value_kinds() -> Vec<(String, String)> {
    // ballast above the std library's transient instantiation peak: see carriers.rs
    let ballast = "b".repeat(1400);
    let t = |l: &str, p: &str| (format!("template:{l}"), format!("let v_ballast = \"{ballast}\";{p}"));
    vec![
        t("bigints", r#"
fn v_pow(v_n: int)->int{ 7 ** v_n }
fn v_aux()->int{ v_pow(300) * v_pow(200) + factorial(60) }
fn main()->bool{ v_aux() > v_pow(400) && (v_pow(100) % 1000 == 1) }
"#),
        t("strings", r#"
fn v_rep(v_s: str, v_n: int)->str{ v_s * v_n }
fn v_aux()->str{ v_rep("ab", 50) + v_rep("é😀", 20) + (12345678901234567890).to_str() }
fn main()->bool{ v_aux().len() == 160 && v_rep("xyz", 3) == "xyzxyzxyz" }
"#),
        t("arrays", r#"
fn v_sq(v_x: int)->int{ v_x * v_x }
fn v_aux()->Sequence<int>{ range(40).map(v_sq).to_array() + [1, 2, 3] }
fn main()->bool{
    let v_a = v_aux();
    let v_b = v_a.push(7).insert(3, 9).pop(0).set(1, 4).swap(0, 5);
    v_a.len() == 43 && v_b.len() == 44 && v_b.sort()[0] == 1
}
"#),
        t("stacks", r#"
fn v_fill(v_n: int)->Stack<int>{ range(v_n).reduce(cast<Stack<int>>(stack()), (v_s: Stack<int>, v_i: int)->{v_s.push(v_i)}) }
fn v_aux()->Stack<int>{ v_fill(30) }
fn main()->bool{ v_aux().len() == 30 && v_fill(5).to_array() == [0, 1, 2, 3, 4] }
"#),
        t("sets", r#"
fn v_mk(v_n: int)->Set<int>{ set<int>().update(range(v_n)) }
fn v_aux()->Set<int>{ v_mk(40).add(100).remove(3) }
fn main()->bool{
    let v_s = v_aux();
    v_s.len() == 40 && v_s.contains(100) && !v_s.contains(3) && (v_mk(5) | v_mk(8)).len() == 8
}
"#),
        t("mappings", r#"
fn v_mk(v_n: int)->Mapping<int, str>{ mapping<int>().update(range(v_n).map((v_i: int)->{(v_i, v_i.to_str())})) }
fn v_aux()->Mapping<int, str>{ v_mk(30).set(100, "hundred").discard(3) }
fn main()->bool{
    let v_m = v_aux();
    v_m.len() == 30 && v_m[100] == "hundred" && v_m.lookup(3).has_value() == false
}
"#),
        t("closures", r#"
fn v_adder(v_x: int)->(int)->(int){
    fn v_add(v_y: int)->int{ v_x + v_y }
    v_add
}
fn v_aux()->Sequence<(int)->(int)>{ range(10).map(v_adder).to_array() }
fn main()->bool{
    let v_fs = v_aux();
    v_fs[3](4) == 7 && v_fs.map((v_f: (int)->(int))->{v_f(1)}).sum() == 55
}
"#),
        t("compounds", r#"
struct V_P(v_x: int, v_y: str)
union V_U(v_a: int, v_b: V_P)
fn v_aux()->Sequence<V_U>{ range(12).map((v_i: int)->{ if(v_i % 2 == 0, V_U::v_a(v_i), V_U::v_b(V_P(v_i, "s" * v_i))) }).to_array() }
fn main()->bool{
    let v_us = v_aux();
    v_us.len() == 12 && (v_us[3]?:v_b).map((v_p: V_P)->{v_p::v_x}) == some(3) && (v_us[2]!:v_a) == 2
}
"#),
        t("errors", r#"
fn v_bad(v_i: int)->int{ if(v_i % 3 == 0, error("bad " + v_i.to_str()), v_i) }
fn v_aux()->int{ range(1, 9).map(v_bad).map((v_x: int)->{v_x + 1}).to_array().len() }
fn main()->bool{
    is_error(v_aux()) && if_error(v_bad(3), 7) == 7 && get_error(v_bad(6)) == some("bad 6") && v_bad(4) == 4
}
"#),
        t("inner-recursion-capturing-locals", r#"
fn v_outer(v_n: int, v_tag: str)->int{
    let v_local = v_tag + v_n.to_str();
    fn v_inner(v_k: int)->int{ if(v_k == 0, v_local.len(), 1 + v_inner(v_k - 1)) }
    v_inner(v_n)
}
fn v_aux()->int{ v_outer(6, "tag") + range(3).map((v_i: int)->{ v_outer(v_i, "x" * 40) }).to_array().len() }
fn main()->bool{ v_aux() > 0 && v_outer(2, "ab") == 5 }
"#),
        t("big-concatenations", r#"
fn v_aux()->int{ ("a" * 3000 + "b" * 3000).len() + (range(500).to_array() + range(500).to_array()).to_array().len() }
fn main()->bool{ v_aux() == 7000 && if_error(("c" * 2500 + "d" * 2500).len(), 0 - 1) == 5000 }
"#),
        t("guarded-big-allocations", r#"
fn v_big(v_n: int)->int{ ("ab" * v_n).len() }
fn v_aux()->int{ if_error(v_big(4000), 0 - 1) + if_error(range(700).to_array().len(), 0 - 1) + if_error(if(2 ** 30000 > 0, 1, 0), 0 - 1) }
fn main()->bool{ v_aux() == 8701 && if_error(cast<Optional<int>>(none()).value("m" * 2500), 0 - 1) == 0 - 1 && get_error(error("e" * 3000)).has_value() }
"#),
        t("generators", r#"
fn v_aux()->Sequence<int>{ count().to_generator().map((v_x: int)->{v_x * 2}).filter((v_x: int)->{v_x % 3 == 0}).take(10).to_array() }
fn main()->bool{
    v_aux() == [0, 6, 12, 18, 24, 30, 36, 42, 48, 54]
    && successors(1, (v_x: int)->{v_x * 2}).take(8).to_array().sum() == 255
}
"#),
        t("optionals-tuples", r#"
fn v_aux()->Sequence<(int, Optional<str>)>{ range(8).map((v_i: int)->{ (v_i, if(v_i % 2 == 0, some(v_i.to_str()), none())) }).to_array() }
fn main()->bool{
    let v_t = v_aux();
    v_t[2]::item1 == some("2") && !v_t[3]::item1.has_value() && v_t.len() == 8
}
"#),
    ]
}
