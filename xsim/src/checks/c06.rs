//! C06 — errors propagate as values; violations cannot be caught.
//!
//! Violation half (what simulation decides): every trip point of every limit/seam fault
//! (allocation, call, depth, recursion, search, timeout under the simulated clock, output
//! failure) under every catcher and inside every higher-order native. Oracle: the first
//! violation that fired is what the host receives; nothing later is visible in the output; the
//! runtime is not poisoned (reset + rerun behaves like the reference).
//! Error half: a fixed enumeration of callee kinds × erroring argument positions (leftmost wins).

use super::{prepare_base, scenario_from_params, violation, Base};
use crate::carriers;
use crate::engine::{HostOp, Limits, Outcome, RunResult, Scenario};
use crate::job::{Exec, Executor, Job, JobResult, JobSpec};
use crate::oracles::{crash_signature, o_count, o_crash, o_transparent_ops, o_uncaught};
use crate::sweep::{self, Kind, Point};
use serde_json::json;

const P: &str = "C06";

pub fn make(spec: &JobSpec, ex: &mut Executor, out: &mut JobResult) -> Option<Box<dyn Job>> {
    match spec.kind.as_str() {
        "single" if spec.params.get("scenario").and_then(|s| s.get("label")).and_then(|l| l.as_str()).map_or(false, |l| l.starts_with("C06 errors ")) => {
            let label = spec.params["scenario"]["label"].as_str().unwrap_or("").to_string();
            let mut j = ErrorsJob::new();
            j.cases.retain(|c| format!("C06 errors {}", c.name) == label);
            Some(Box::new(j))
        }
        "single" if spec.params.get("scenario").and_then(|s| s.get("label")).and_then(|l| l.as_str()).map_or(false, |l| l.starts_with("C06 doc-errors ")) => {
            let sc: Scenario = serde_json::from_value(spec.params["scenario"].clone()).ok()?;
            let n: usize = sc.label.rsplit("arg").next().and_then(|x| x.parse().ok()).unwrap_or(1);
            Some(Box::new(DocErrorsJob { cases: vec![(sc.label.trim_start_matches("C06 doc-errors ").to_string(), sc.program.clone(), n)] }))
        }
        "single" if spec.params.get("scenario").and_then(|s| s.get("label")).and_then(|l| l.as_str()).map_or(false, |l| l.starts_with("C06 callback-errors")) => {
            Some(Box::new(CallbackErrorsJob::new()))
        }
        "carrier" | "doc-carrier" | "corpus" | "single" => SweepJob::new(spec, ex, out).map(|j| Box::new(j) as Box<dyn Job>),
        "doc-errors" => Some(Box::new(DocErrorsJob::new(spec))),
        "errors" => Some(Box::new(ErrorsJob::new())),
        "callback-errors" => Some(Box::new(CallbackErrorsJob::new())),
        k => {
            out.notes.push(format!("C06: unknown job kind {k}"));
            None
        }
    }
}

/// run, drop, reset, run again: the second run shows whether the first violation poisoned anything
pub fn rerun_ops() -> Vec<HostOp> {
    vec![
        HostOp::Instantiate { slot: 0 },
        HostOp::Run { slot: 0, func: "main".into() },
        HostOp::DropAllResults,
        // a second run with nothing reset: a budget that tripped must still be tripped
        HostOp::Run { slot: 0, func: "main".into() },
        HostOp::DropAllResults,
        HostOp::ResetCalls,
        HostOp::ResetTimeout,
        HostOp::Run { slot: 0, func: "main".into() },
        HostOp::DropAllResults,
        HostOp::DropScope { slot: 0 },
    ]
}

struct SweepJob {
    base: Base,
    points: Vec<Point>,
    single: bool,
}

impl SweepJob {
    fn new(spec: &JobSpec, ex: &mut Executor, out: &mut JobResult) -> Option<Self> {
        let single = spec.kind == "single";
        let mut sc = if spec.kind == "doc-carrier" {
            let idx = spec.params.get("index")?.as_u64()? as usize;
            let (calls, _, _) = crate::docsig::calls();
            let c = calls.get(idx)?;
            // "big": the variant with one large argument, so that the function's own allocations are reachable size-fault points
            let (label, call) = match spec.params.get("big").and_then(|v| v.as_u64()) {
                Some(k) => crate::docsig::big_variants(c).into_iter().nth(k as usize)?,
                None => (c.label.clone(), c.call.clone()),
            };
            let mut sc = Scenario::standard(&crate::docsig::program(&call), Limits::calibration());
            sc.perms = [Some(true); 6];
            sc.label = format!("C06 {label}");
            if spec.params.get("big").is_some() {
                // with working callbacks over hundreds of elements the unlimited run is long: the reference keeps modest budgets
                sc.reference_budgets = Some((2_000, 20_000));
                sc.limits.search = Some(2_000);
                sc.limits.ud_call = Some(20_000);
            }
            sc
        } else if spec.kind == "carrier" {
            let ci = spec.params.get("carrier")?.as_u64()? as usize;
            let ki = spec.params.get("catcher")?.as_u64()? as usize;
            let (label, text) = carriers::program(ci, ki)?;
            let mut sc = Scenario::standard(&text, Limits::calibration());
            // random-consuming natives are carriers too (the random source is a double)
            sc.perms[3] = Some(true);
            sc.label = format!("C06 {label}");
            sc
        } else {
            scenario_from_params(spec)?
        };
        if !single {
            sc.ops = rerun_ops();
        }
        let base = prepare_base(P, P, &sc, ex, out)?;
        if single {
            let p = Point { kind: Kind::Calls, value: 0, scenario: sc };
            return Some(SweepJob { base, points: vec![p], single });
        }
        let kinds: Vec<Kind> = match spec.params.get("kinds").and_then(|v| v.as_array()) {
            Some(a) => a.iter().filter_map(|v| v.as_str()).filter_map(Kind::parse).collect(),
            None => Kind::all(),
        };
        let max = spec.params.get("max_points").and_then(|v| v.as_u64()).unwrap_or(40) as usize;
        let (points, nd) = sweep::points(&base, &kinds, max, spec.seed);
        if !matches!(base.reference.main_outcome(), Outcome::Value(_) | Outcome::Error(_)) {
            out.notes.push(format!("{}: reference run ends in {:?}", base.sc.label, base.reference.main_outcome().class()));
        }
        if out.samples.len() < 2 {
            out.samples.push(json!({"kind": spec.kind, "program": base.sc.label, "host_ops": base.sc.ops,
                "fault_points": points.len(), "fault_kinds": kinds.iter().map(|k| k.name()).collect::<Vec<_>>(),
                "reference": {"calls": nd.calls, "deepest_frame": nd.height, "allocations": nd.allocs, "writes": nd.writes}}));
        }
        Some(SweepJob { base, points, single })
    }
}

pub fn judge(base: &Base, sc: &Scenario, r: &RunResult, out: &mut JobResult) {
    for f in o_crash(r) {
        out.violate(violation(P, P, f, sc));
    }
    for f in o_uncaught(r) {
        out.violate(violation(P, P, f, sc));
    }
    for f in o_count(sc, r) {
        out.violate(violation(P, P, f, sc));
    }
    for f in o_transparent_ops(sc, &base.reference, r) {
        out.violate(violation(P, P, f, sc));
    }
}

impl Job for SweepJob {
    fn len(&self) -> usize {
        self.points.len()
    }
    fn scenario(&mut self, i: usize) -> Scenario {
        self.points[i].scenario.clone()
    }
    fn judge(&mut self, i: usize, sc: &Scenario, r: Exec, out: &mut JobResult) {
        let Exec::Run(r) = r else { return };
        out.absorb_run(&r);
        judge(&self.base, sc, &r, out);
        if self.single {
            return;
        }
        let p = &self.points[i];
        let first = r.ops.iter().position(|o| o.outcome.violation_kind().is_some());
        let kind = first.and_then(|i| r.ops[i].outcome.violation_kind()).unwrap_or("none").to_string();
        let site = r.fired_sites.first().cloned().unwrap_or_default();
        let prog = self.base.sc.label.clone();
        out.tuples.insert(format!("{prog}|{}|{}|{}|op{}", p.kind.name(), kind, site, first.unwrap_or(99)));
        if let Some(fi) = first {
            out.probe(&format!("trip_{}", p.kind.name()));
            if kind == "MaximumSearch" {
                out.count("search_trips", 1);
            }
            // did a later run on the same runtime succeed?
            if r.ops.iter().skip(fi + 1).any(|o| matches!(o.outcome, Outcome::Value(_))) {
                out.probe("rerun_after_violation_succeeded");
            }
            if r.ops.iter().skip(fi + 1).any(|o| o.outcome.violation_kind().is_some()) {
                out.probe("rerun_after_violation_tripped_again");
            }
        }
        if r.counters.write_eintr > 0 && first.is_none() {
            out.probe("eintr_transparent");
        }
        if r.counters.write_short > 0 && first.is_none() {
            out.probe("short_write_transparent");
        }
    }
}

// ------------------------------------------------------------------ error half

const ERR_PRELUDE: &str = r#"
fn v_ok(v_k: int)->int{ display(v_k) }
fn v_er(v_k: int)->int{ error("E" + display(v_k).to_str()) }
fn v_u1(v_a: int)->int{ display(100) + v_a }
fn v_u2(v_a: int, v_b: int)->int{ display(100) + v_a + v_b }
fn v_u3(v_a: int, v_b: int, v_c: int)->int{ display(100) + v_a + v_b + v_c }
struct V_T1(v_a: int)
struct V_T2(v_a: int, v_b: int)
struct V_T3(v_a: int, v_b: int, v_c: int)
union V_U(v_a: int, v_b: str)
"#;

/// (name, arity, result type, template with {0} {1} {2})
const CALLEES: &[(&str, usize, &str, &str)] = &[
    ("builtin-add", 2, "int", "{0} + {1}"),
    ("builtin-nested-ops", 3, "int", "{0} + {1} * {2}"),
    ("builtin-cmp", 2, "bool", "{0} < {1}"),
    ("builtin-neg", 1, "int", "-{0}"),
    ("user-fn-1", 1, "int", "v_u1({0})"),
    ("user-fn-2", 2, "int", "v_u2({0}, {1})"),
    ("user-fn-3", 3, "int", "v_u3({0}, {1}, {2})"),
    ("method-call", 3, "int", "{0}.v_u3({1}, {2})"),
    ("partial-curried", 2, "(int)->(int)", "partial(v_u3, {0}, {1})"),
    ("partial-curried-in-array", 1, "int", "[partial(v_u2, {0})].len()"),
    ("lambda-call", 2, "int", "((v_x: int, v_y: int)->{v_x + v_y})({0}, {1})"),
    ("struct-1", 1, "V_T1", "V_T1({0})"),
    ("struct-2", 2, "V_T2", "V_T2({0}, {1})"),
    ("struct-3", 3, "V_T3", "V_T3({0}, {1}, {2})"),
    ("union-variant", 1, "V_U", "V_U::v_a({0})"),
    ("tuple-2", 2, "(int, int)", "({0}, {1})"),
    ("tuple-3", 3, "(int, int, int)", "({0}, {1}, {2})"),
    ("array-3", 3, "Sequence<int>", "[{0}, {1}, {2}]"),
    ("array-nested-tuple", 2, "Sequence<(int, int)>", "[({0}, {1})]"),
    ("seq-push", 1, "Sequence<int>", "[7].push({0})"),
    ("seq-insert", 2, "Sequence<int>", "[7, 8].insert({0}, {1})"),
    ("seq-set", 2, "Sequence<int>", "[7, 8].set({0}, {1})"),
    ("seq-get", 1, "int", "[7, 8, 9].get({0})"),
    ("seq-index-sugar", 1, "int", "[7, 8, 9][{0}]"),
    ("seq-add", 2, "Sequence<int>", "[{0}] + [{1}]"),
    ("mapping-set", 2, "Mapping<int, int>", "mapping<int>().set({0}, {1})"),
    ("mapping-update", 2, "Mapping<int, int>", "mapping<int>().set(1, 2).update([({0}, {1})].to_generator())"),
    ("set-add", 1, "Set<int>", "set<int>().add({0})"),
    ("stack-push", 1, "Stack<int>", "stack().push({0})"),
    ("optional-some", 1, "Optional<int>", "some({0})"),
    ("to_str", 1, "str", "to_str({0})"),
    ("tail-self-call", 2, "int", "fn v_t(v_n: int, v_a: int, v_b: int)->int{ if(v_n == 0, display(100), v_t(v_n - 1, {0}, {1})) } v_t(1, 0, 0)"),
    ("tail-self-call-via-if_error", 2, "int", "fn v_t(v_n: int, v_a: int, v_b: int)->int{ if_error(if(v_n == 0, display(100), error(\"more\")), \"more\", v_t(v_n - 1, {0}, {1})) } v_t(1, 0, 0)"),
    ("tail-self-call-via-or", 1, "bool", "fn v_t(v_n: int, v_a: int)->bool{ (v_n == 0 && display(100) > 0) || v_t(v_n - 1, {0}) } v_t(1, 0)"),
    ("lazy-map-forced", 1, "Sequence<int>", "range(3).map((v_x: int)->{ if(v_x == 1, {0}, v_x) }).to_array()"),
    ("generator-map-forced", 1, "Sequence<int>", "range(3).to_generator().map((v_x: int)->{ if(v_x == 1, {0}, v_x) }).to_array()"),
];

struct ErrCase {
    name: String,
    program: String,
    /// index (1-based) of the leftmost erroring argument, 0 = none
    first_err: usize,
    arity: usize,
}

struct ErrorsJob {
    cases: Vec<ErrCase>,
}

impl ErrorsJob {
    fn new() -> Self {
        let mut cases = vec![];
        for (name, arity, ty, tpl) in CALLEES {
            // every non-empty subset of argument positions errs, plus the all-ok case
            for mask in 0..(1u32 << arity) {
                let mut body = tpl.to_string();
                let mut first_err = 0;
                for i in 0..*arity {
                    let bad = mask & (1 << i) != 0;
                    if bad && first_err == 0 {
                        first_err = i + 1;
                    }
                    body = body.replace(&format!("{{{i}}}"), &format!("{}({})", if bad { "v_er" } else { "v_ok" }, i + 1));
                }
                cases.push(ErrCase {
                    name: format!("{name} mask={mask:b}"),
                    program: format!("{ERR_PRELUDE}\nfn main()->{ty}{{ {body} }}\n"),
                    first_err,
                    arity: *arity,
                });
            }
        }
        ErrorsJob { cases }
    }
}

impl Job for ErrorsJob {
    fn len(&self) -> usize {
        self.cases.len()
    }
    fn scenario(&mut self, i: usize) -> Scenario {
        let mut sc = Scenario::standard(&self.cases[i].program, Limits::calibration());
        sc.label = format!("C06 errors {}", self.cases[i].name);
        sc
    }
    fn judge(&mut self, i: usize, sc: &Scenario, r: Exec, out: &mut JobResult) {
        let c = &self.cases[i];
        let r = match r {
            Exec::Run(r) => r,
            Exec::CompileError(m) => {
                out.notes.push(format!("{}: does not compile: {m}", c.name));
                out.count("errors_compile_failures", 1);
                return;
            }
            Exec::CompilePanic(m) => {
                out.violate(violation(P, P, ("crash".into(), crash_signature(&m), m.clone()), sc));
                return;
            }
        };
        out.absorb_run(&r);
        for f in o_crash(&r) {
            out.violate(violation(P, P, f, sc));
        }
        let got = r.main_outcome().clone();
        let callee = c.name.split(' ').next().unwrap_or("");
        if c.first_err == 0 {
            if !matches!(got, Outcome::Value(_)) {
                out.violate(violation(P, P, ("errors".into(), format!("{callee}: error-free call does not yield a value"), format!("got {got:?}")), sc));
            }
        } else {
            let want = Outcome::Error(format!("E{}", c.first_err));
            if got != want {
                out.violate(violation(
                    P,
                    P,
                    ("errors".into(), format!("{callee}: error argument not propagated (leftmost first)"), format!("expected {want:?}, got {got:?}")),
                    sc,
                ));
            }
            // the callee's body must not have run
            let text = String::from_utf8_lossy(&r.out).to_string();
            if text.lines().any(|l| l == "100") {
                out.violate(violation(P, P, ("errors".into(), format!("{callee}: callee body ran although an argument was an error"), format!("output {text:?}")), sc));
            }
            // evaluation is left to right: what was printed is 1..k for some k >= first_err
            let nums: Vec<usize> = text.lines().filter_map(|l| l.parse().ok()).filter(|n| *n < 100).collect();
            let in_order = nums.iter().enumerate().all(|(j, n)| *n == j + 1);
            if !callee.contains("forced") && (!in_order || nums.len() < c.first_err || nums.len() > c.arity) {
                out.violate(violation(P, P, ("errors".into(), format!("{callee}: arguments not evaluated left to right up to the error"), format!("evaluated {nums:?}, first error at {}", c.first_err)), sc));
            }
        }
        out.tuples.insert(format!("errors|{}", c.name));
        out.probe("error_cases");
    }
}


// ------------------------------------------------------------------ errors returned by callbacks

/// every native that calls back into a function: when the callback returns an error value the
/// native yields that error (it is not read as false / not-equal / skipped)
const CALLBACK_PROGRAM: &str = include_str!("c06_callbacks.xr");

struct CallbackErrorsJob {
    funcs: Vec<String>,
}

impl CallbackErrorsJob {
    fn new() -> Self {
        let funcs = CALLBACK_PROGRAM
            .lines()
            .filter_map(|l| l.strip_prefix("fn "))
            .filter_map(|l| l.split('(').next())
            .filter(|n| n.len() == 3 && n.chars().skip(1).all(|c| c.is_ascii_digit()))
            .map(|n| n.to_string())
            .collect();
        CallbackErrorsJob { funcs }
    }
}

impl Job for CallbackErrorsJob {
    fn len(&self) -> usize {
        1
    }
    fn scenario(&mut self, _i: usize) -> Scenario {
        let mut sc = Scenario::standard(&format!("{CALLBACK_PROGRAM}\nfn main()->bool{{ true }}\n"), Limits::calibration());
        sc.label = "C06 callback-errors".to_string();
        let mut ops = vec![HostOp::Instantiate { slot: 0 }];
        for f in &self.funcs {
            ops.push(HostOp::Run { slot: 0, func: f.clone() });
        }
        ops.push(HostOp::DropAllResults);
        ops.push(HostOp::DropScope { slot: 0 });
        sc.ops = ops;
        sc
    }
    fn judge(&mut self, _i: usize, sc: &Scenario, r: Exec, out: &mut JobResult) {
        let r = match r {
            Exec::Run(r) => r,
            Exec::CompileError(m) => {
                out.notes.push(format!("callback-errors program does not compile: {m}"));
                out.count("errors_compile_failures", 1);
                return;
            }
            Exec::CompilePanic(m) => {
                out.violate(violation(P, P, ("crash".into(), crash_signature(&m), m.clone()), sc));
                return;
            }
        };
        out.absorb_run(&r);
        for f in o_crash(&r) {
            out.violate(violation(P, P, f, sc));
        }
        for (i, op) in sc.ops.iter().enumerate() {
            if let HostOp::Run { func, .. } = op {
                let got = &r.ops[i].outcome;
                if *got != Outcome::Error("CB".to_string()) {
                    let line = CALLBACK_PROGRAM.lines().find(|l| l.starts_with(&format!("fn {func}("))).unwrap_or("");
                    let what: String = line.split('{').nth(1).unwrap_or("").trim().trim_end_matches('}').trim().chars().take(90).collect();
                    out.violate(violation(P, P, ("errors".into(), format!("error returned by a callback is not the result: {what}"), format!("{func}: got {got:?}")), sc));
                }
                out.tuples.insert(format!("callback-error|{func}"));
                out.probe("callback_error_cases");
            }
        }
    }
}


// ------------------------------------------------------------------ error arguments into every documented function

struct DocErrorsJob {
    cases: Vec<(String, String, usize)>,
}

impl DocErrorsJob {
    fn new(spec: &JobSpec) -> Self {
        let (calls, _, _) = crate::docsig::calls();
        let part = spec.params.get("part").and_then(|v| v.as_u64()).unwrap_or(0) as usize;
        let parts = spec.params.get("parts").and_then(|v| v.as_u64()).unwrap_or(1) as usize;
        let mut cases = vec![];
        let short = crate::docsig::short_circuiting();
        for (ci, c) in calls.iter().enumerate() {
            if ci % parts != part || crate::docsig::ERROR_HANDLERS.contains(&c.name.as_str()) {
                continue;
            }
            for i in 0..c.args.len() {
                let mut args = c.args.clone();
                args[i] = format!("if(false, {}, error(\"E{}\"))", c.args[i], i + 1);
                let call = format!("{}({})", c.name, args.join(", "));
                let text = format!("{}\nfn main()->str{{ get_error({call}).or(\"<value>\") }}\n", crate::docsig::PRELUDE);
                cases.push((format!("{} arg{}", c.label, i + 1), text, i + 1));
            }
            // an erroring argument next to an EMPTY collection argument: nothing to do is no reason not to look
            // (except where the documentation says the function is short-circuiting: an absent optional is such a case)
            let file = c.label.split(':').nth(1).unwrap_or("").to_string();
            let documented_short_circuit = short.contains(&(file, c.name.clone()));
            for i in 0..(if documented_short_circuit { 0 } else { c.args.len() }) {
                for j in 0..c.args.len() {
                    if i == j {
                        continue;
                    }
                    let Some(empty) = c.arg_types.get(j).and_then(crate::docsig::empty_of) else { continue };
                    let mut args = c.args.clone();
                    args[i] = format!("if(false, {}, error(\"E{}\"))", c.args[i], i + 1);
                    args[j] = empty;
                    let call = format!("{}({})", c.name, args.join(", "));
                    let text = format!("{}\nfn main()->str{{ get_error({call}).or(\"<value>\") }}\n", crate::docsig::PRELUDE);
                    cases.push((format!("{} arg{}+empty-arg{}", c.label, i + 1, j + 1), text, i + 1));
                }
            }
            // two erroring arguments: the leftmost one is the result
            for i in 0..c.args.len() {
                for j in (i + 1)..c.args.len() {
                    let mut args = c.args.clone();
                    args[i] = format!("if(false, {}, error(\"E{}\"))", c.args[i], i + 1);
                    args[j] = format!("if(false, {}, error(\"E{}\"))", c.args[j], j + 1);
                    let call = format!("{}({})", c.name, args.join(", "));
                    let text = format!("{}\nfn main()->str{{ get_error({call}).or(\"<value>\") }}\n", crate::docsig::PRELUDE);
                    cases.push((format!("{} arg{}+arg{}", c.label, i + 1, j + 1), text, i + 1));
                }
            }
        }
        DocErrorsJob { cases }
    }
}

impl Job for DocErrorsJob {
    fn len(&self) -> usize {
        self.cases.len()
    }
    fn scenario(&mut self, i: usize) -> Scenario {
        let mut sc = Scenario::standard(&self.cases[i].1, Limits::calibration());
        sc.perms = [Some(true); 6];
        sc.limits.search = Some(100_000);
        sc.limits.ud_call = Some(200_000);
        sc.label = format!("C06 doc-errors {}", self.cases[i].0);
        sc
    }
    fn judge(&mut self, i: usize, sc: &Scenario, r: Exec, out: &mut JobResult) {
        let r = match r {
            Exec::Run(r) => r,
            Exec::CompileError(_) => {
                out.count("doc_error_cases_rejected_by_compiler", 1);
                return;
            }
            Exec::CompilePanic(m) => {
                out.violate(violation(P, P, ("crash".into(), crash_signature(&m), m.clone()), sc));
                return;
            }
        };
        out.absorb_run(&r);
        for f in o_crash(&r) {
            out.violate(violation(P, P, f, sc));
        }
        let want = Outcome::Value(format!("\"E{}\"", self.cases[i].2));
        if *r.main_outcome() != want {
            let name = self.cases[i].0.split(':').nth(2).unwrap_or("").split('#').next().unwrap_or("").to_string();
            out.violate(violation(P, P, ("errors".into(), format!("documented function {name}: error argument {} does not become the result", self.cases[i].2), format!("{}: got {:?}", self.cases[i].0, r.main_outcome())), sc));
        }
        out.tuples.insert(format!("doc-error|{}", self.cases[i].0));
        out.probe("doc_error_cases");
    }
}
