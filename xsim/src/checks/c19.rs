//! C19 (sorting / failure half) — sorting and the order-statistic functions return what a
//! reference stable sort selects, and a comparator that fails midway yields that failure with
//! no element lost, duplicated or leaked.
//!
//! Failure injection: (i) violations — the call budget (and size / depth limits) placed at every
//! comparison index through the fault-point sweep; (ii) error values — a comparator that returns
//! an error whenever it sees a poison element, poison position swept. After each failure the
//! accounting must balance (a lost or duplicated Rc in the unsafe merge / heap code shows up as
//! residue, unmatched deallocation, underflow or crash), the input must read back unchanged and a
//! rerun must give the reference.

use super::{prepare_base, violation, Base};
use crate::engine::{Limits, Outcome, RunResult, Scenario};
use crate::job::{Exec, Executor, Job, JobResult, JobSpec};
use crate::oracles::{crash_signature, o_balance, o_count, o_crash, o_transparent_ops, o_uncaught};
use crate::prng::Prng;
use crate::sweep::{self, Kind};
use serde_json::json;

const P: &str = "C19";

#[derive(Clone, Debug)]
pub struct Input {
    pub values: Vec<i64>,
    pub k: i64,
    pub pattern: &'static str,
}

pub fn gen_input(rng: &mut Prng, len: usize) -> Input {
    let k = *rng.pick(&[1i64, 2, 3, 7, 50, 1000]);
    // distinct values so element identity is visible; key = value % k
    let mut vals: Vec<i64> = (0..len as i64).map(|i| i * 3 + 1).collect();
    let pattern = match rng.below(8) {
        0 => {
            "ascending-values"
        }
        1 => {
            vals.reverse();
            "descending-values"
        }
        2 => {
            vals.sort_by_key(|v| v % k);
            "sorted-by-key"
        }
        3 => {
            vals.sort_by_key(|v| -(v % k));
            "reverse-sorted-by-key"
        }
        4 => {
            // two ascending runs
            let mid = len / 2;
            let (a, b) = vals.split_at_mut(mid);
            a.sort_by_key(|v| v % k);
            b.sort_by_key(|v| v % k);
            "two-runs"
        }
        5 => {
            // sorted with one element out of place
            vals.sort_by_key(|v| v % k);
            if len > 2 {
                let i = rng.below(len as u64) as usize;
                let j = rng.below(len as u64) as usize;
                vals.swap(i, j);
            }
            "almost-sorted"
        }
        6 => {
            // sawtooth of short runs
            for c in vals.chunks_mut(7) {
                c.sort_by_key(|v| v % k);
            }
            "sawtooth"
        }
        _ => {
            rng.shuffle(&mut vals);
            "shuffled"
        }
    };
    Input { values: vals, k, pattern }
}

fn lit(v: &[i64]) -> String {
    format!("[{}]", v.iter().map(|x| x.to_string()).collect::<Vec<_>>().join(", "))
}

pub struct Case {
    pub text: String,
    pub expected: Vec<Expect>,
    pub label: String,
    /// the comparator fails only on one ordered pair and prints HIT when it does: a result line
    /// preceded by a HIT must be the failure, any other line the reference
    pub pair_mode: bool,
}

#[derive(Clone, Debug)]
pub enum Expect {
    Exact(String),
    OneOf(Vec<String>),
}

fn seq_str(v: &[i64]) -> String {
    format!("[{}]", v.iter().map(|x| x.to_string()).collect::<Vec<_>>().join(", "))
}

/// program that prints the result of every sorting function on `input`; with `poison`, the
/// comparator fails whenever it sees that element
pub fn case(input: &Input, n: usize, poison: Option<i64>) -> Case {
    case_with(input, n, poison, None)
}

pub fn case_with(input: &Input, n: usize, poison: Option<i64>, pair: Option<(i64, i64)>) -> Case {
    let k = input.k;
    let len = input.values.len();
    let mut text = String::new();
    text.push_str(&format!("fn v_good(v_a: int, v_b: int)->int{{ cmp(v_a % {k}, v_b % {k}) }}\n"));
    if let Some((x, y)) = pair {
        text.push_str("fn v_hit()->int{ let v_d = display(\"HIT\"); error(\"poison\") }\n");
        text.push_str(&format!("fn v_c(v_a: int, v_b: int)->int{{ if(v_a == {x} && v_b == {y}, v_hit(), cmp(v_a % {k}, v_b % {k})) }}\n"));
    } else if let Some(p) = poison {
        text.push_str(&format!("fn v_c(v_a: int, v_b: int)->int{{ if(v_a == {p} || v_b == {p}, error(\"poison\"), cmp(v_a % {k}, v_b % {k})) }}\n"));
    } else {
        text.push_str(&format!("fn v_c(v_a: int, v_b: int)->int{{ cmp(v_a % {k}, v_b % {k}) }}\n"));
    }
    text.push_str(&format!("fn v_key(v_x: int)->int{{ v_x % {k} }}\n"));
    text.push_str(&format!("let v_in = {};\n", if len == 0 { "cast<Sequence<int>>([])".to_string() } else { lit(&input.values) }));
    // reference
    let mut asc: Vec<i64> = input.values.clone();
    asc.sort_by_key(|v| v % k);
    let mut desc: Vec<i64> = input.values.clone();
    desc.sort_by_key(|v| -(v % k));
    let keys_asc: Vec<i64> = asc.iter().map(|v| v % k).collect();
    let keys_desc: Vec<i64> = desc.iter().map(|v| v % k).collect();
    let nn = n.min(len);
    let mut body: Vec<(String, Expect)> = vec![];
    let err_or = |ok: String, applies: bool| -> Expect {
        if poison.is_some() && applies {
            Expect::Exact("ERR:poison".to_string())
        } else {
            Expect::Exact(ok)
        }
    };
    let cmp_needed = len >= 2;
    let show = |e: &str| format!("display(if_error(({e}).to_str(), \"ERR:\" + get_error({e}).or(\"?\")))");
    body.push((show("v_in.sort(v_c)"), err_or(seq_str(&asc), cmp_needed)));
    body.push((show("v_in.sort_reverse(v_c)"), err_or(seq_str(&desc), cmp_needed)));
    body.push((show(&format!("v_in.n_largest({n}, v_c).map(v_key)")), err_or(seq_str(&keys_desc[..nn]), cmp_needed && n > 0)));
    body.push((show(&format!("v_in.n_smallest({n}, v_c).map(v_key)")), err_or(seq_str(&keys_asc[..nn]), cmp_needed && n > 0)));
    if len > 0 {
        let i = n % len;
        body.push((show(&format!("v_key(v_in.nth_largest({i}, v_c))")), err_or(keys_desc[i].to_string(), cmp_needed)));
        body.push((show(&format!("v_key(v_in.nth_smallest({i}, v_c))")), err_or(keys_asc[i].to_string(), cmp_needed)));
        let med = if poison.is_some() && cmp_needed {
            Expect::Exact("ERR:poison".to_string())
        } else {
            Expect::OneOf(vec![keys_asc[(len - 1) / 2].to_string(), keys_asc[len / 2].to_string()])
        };
        body.push((show("v_key(v_in.median(v_c))"), med));
    } else {
        body.push(("display(is_error(v_in.median(v_c)))".to_string(), Expect::Exact("true".into())));
        body.push(("display(is_error(v_in.nth_largest(0, v_c)))".to_string(), Expect::Exact("true".into())));
    }
    // the input reads back unchanged, and a good comparator still gives the reference
    body.push(("display(v_in.to_str())".to_string(), Expect::Exact(seq_str(&input.values))));
    body.push(("display(v_in.sort(v_good).to_str())".to_string(), Expect::Exact(seq_str(&asc))));
    text.push_str("fn main()->bool{\n");
    let mut expected = vec![];
    for (j, (e, x)) in body.into_iter().enumerate() {
        text.push_str(&format!("    let v_o{j} = {e};\n"));
        expected.push(x);
    }
    text.push_str("    true\n}\n");
    let label = format!(
        "C19 len={} K={} {} n={} poison={}",
        len,
        k,
        input.pattern,
        n,
        match (poison, pair) {
            (_, Some((x, y))) => format!("pair({x},{y})"),
            (Some(p), _) => p.to_string(),
            _ => "none".to_string(),
        }
    );
    Case { text, expected, label, pair_mode: pair.is_some() }
}

/// built-in (derived) comparisons of plain int sequences that share a long prefix: under a
/// search limit each line is either the lexicographic answer or the run ends in MaximumSearch
pub fn seq_search_case(rng: &mut Prng) -> Case {
    let len = 6 + rng.below(30) as usize;
    let a: Vec<i64> = (0..len as i64).map(|i| i * 2 + 1).collect();
    let variant = |rng: &mut Prng, a: &Vec<i64>| -> Vec<i64> {
        let mut b = a.clone();
        match rng.below(5) {
            0 => {}
            1 => {
                let at = rng.below(len as u64) as usize;
                b[at] += if rng.below(2) == 0 { 1 } else { -1 };
            }
            2 => {
                let l = b.len() - 1;
                b[l] += 5;
            }
            3 => {
                b.pop();
            }
            _ => b.push(0),
        }
        b
    };
    let b = variant(rng, &a);
    let c = variant(rng, &a);
    let sign = |o: std::cmp::Ordering| match o {
        std::cmp::Ordering::Less => "-1",
        std::cmp::Ordering::Equal => "0",
        std::cmp::Ordering::Greater => "1",
    };
    let mut text = String::new();
    text.push_str(&format!("let v_a = {};
let v_b = {};
let v_c = {};
", lit(&a), lit(&b), lit(&c)));
    let mut sorted = vec![b.clone(), a.clone(), c.clone()];
    sorted.sort();
    let sorted_str = format!("[{}]", sorted.iter().map(|v| seq_str(v)).collect::<Vec<_>>().join(", "));
    let mut smallest = vec![c.clone(), b.clone(), a.clone()];
    smallest.sort();
    let body: Vec<(String, Expect)> = vec![
        ("display(cmp(v_a, v_b).to_str())".into(), Expect::Exact(sign(a.cmp(&b)).into())),
        ("display(cmp(v_b, v_a).to_str())".into(), Expect::Exact(sign(b.cmp(&a)).into())),
        ("display((v_a == v_b).to_str())".into(), Expect::Exact((a == b).to_string())),
        ("display((v_a != v_c).to_str())".into(), Expect::Exact((a != c).to_string())),
        ("display((v_a < v_b).to_str())".into(), Expect::Exact((a < b).to_string())),
        ("display((v_c >= v_b).to_str())".into(), Expect::Exact((c >= b).to_string())),
        ("display((hash(v_a) == hash(v_b)).to_str())".into(), if a == b { Expect::Exact("true".into()) } else { Expect::OneOf(vec!["true".into(), "false".into()]) }),
        ("display([v_b, v_a, v_c].sort().to_str())".into(), Expect::Exact(sorted_str.clone())),
        ("display([v_b, v_a, v_c].sort((v_x: Sequence<int>, v_y: Sequence<int>)->{cmp(v_x, v_y)}).to_str())".into(), Expect::Exact(sorted_str)),
        ("display([v_c, v_b, v_a].n_smallest(1).to_str())".into(), Expect::Exact(format!("[{}]", seq_str(&smallest[0])))),
        ("display(v_a.to_str())".into(), Expect::Exact(seq_str(&a))),
    ];
    text.push_str("fn main()->bool{\n");
    let mut expected = vec![];
    for (j, (e, x)) in body.into_iter().enumerate() {
        text.push_str(&format!("    let v_o{j} = {e};\n"));
        expected.push(x);
    }
    text.push_str("    true\n}\n");
    let first_diff = a.iter().zip(b.iter()).position(|(x, y)| x != y).unwrap_or(a.len().min(b.len()));
    Case { text, expected, label: format!("C19 seqsearch len={len} diff_at={first_diff} lens=({},{},{})", a.len(), b.len(), c.len()), pair_mode: false }
}

/// equal collections reached by different histories are `==` and hash equally: route A is a
/// seeded history of insertions and removals (which leaves emptied buckets, overwritten entries
/// and a particular insertion order behind), route B builds the same contents afresh
pub fn collection_coherence_case(rng: &mut Prng) -> Case {
    let is_set = rng.chance(1, 2);
    let native = rng.chance(1, 2);
    let e = *rng.pick(&[2i64, 3, 5, 12]);
    let m = *rng.pick(&[1i64, 2, 3, 7, 1000]);
    let cls = |k: i64| if native { k } else { k % e };
    let mut text = String::new();
    if !native {
        text.push_str(&format!("fn v_h(v_k: int)->int{{ (v_k % {e}) % {m} }}\nfn v_e(v_a: int, v_b: int)->bool{{ v_a % {e} == v_b % {e} }}\n"));
    }
    let empty = match (is_set, native) {
        (true, true) => "set<int>()".to_string(),
        (true, false) => "set(v_h, v_e)".to_string(),
        (false, true) => "mapping<int>().set(0, 0).discard(0)".to_string(),
        (false, false) => "mapping(v_h, v_e).set(0, 0).discard(0)".to_string(),
    };
    // model: class -> value (value 0 for sets)
    let mut model: Vec<(i64, i64)> = vec![];
    let n_ops = 2 + rng.below(14) as usize;
    let mut expr = empty.clone();
    text.push_str(&format!("let v_a0 = {expr};\n"));
    for i in 0..n_ops {
        let k = rng.below(12) as i64;
        let v = 1 + rng.below(5) as i64;
        let present = model.iter().position(|(c, _)| *c == cls(k));
        let op = rng.below(10);
        expr = if is_set {
            match (op, present) {
                (0..=4, None) => {
                    model.push((cls(k), 0));
                    format!("v_a{i}.add({k})")
                }
                (0..=4, Some(_)) => format!("v_a{i}.add({k})"),
                (5..=7, Some(p)) => {
                    model.remove(p);
                    if op == 5 { format!("v_a{i}.remove({k})") } else { format!("v_a{i}.discard({k})") }
                }
                (5..=7, None) => format!("v_a{i}.discard({k})"),
                _ => {
                    let k2 = rng.below(12) as i64;
                    for kk in [k, k2] {
                        if !model.iter().any(|(c, _)| *c == cls(kk)) {
                            model.push((cls(kk), 0));
                        }
                    }
                    format!("v_a{i}.update([{k}, {k2}])")
                }
            }
        } else {
            match (op, present) {
                (0..=4, None) => {
                    model.push((cls(k), v));
                    format!("v_a{i}.set({k}, {v})")
                }
                (0..=4, Some(p)) => {
                    model[p].1 = v;
                    format!("v_a{i}.set({k}, {v})")
                }
                (5..=7, Some(p)) => {
                    model.remove(p);
                    if op == 5 { format!("v_a{i}.pop({k})") } else { format!("v_a{i}.discard({k})") }
                }
                (5..=7, None) => format!("v_a{i}.discard({k})"),
                _ => {
                    match present {
                        Some(p) => model[p].1 = v,
                        None => model.push((cls(k), v)),
                    }
                    format!("v_a{i}.update([({k}, {v})].to_generator())")
                }
            }
        };
        text.push_str(&format!("let v_a{} = {expr};\n", i + 1));
    }
    // route B: the same contents, fresh, in a seeded order, through a representative of each class
    let mut fresh = model.clone();
    rng.shuffle(&mut fresh);
    text.push_str(&format!("let v_b0 = {empty};\n"));
    for (j, (c, v)) in fresh.iter().enumerate() {
        let rep = if native { *c } else { *c + e * (rng.below(3) as i64) };
        let step = if is_set { format!("v_b{j}.add({rep})") } else { format!("v_b{j}.set({rep}, {v})") };
        text.push_str(&format!("let v_b{} = {step};\n", j + 1));
    }
    let (a, b) = (format!("v_a{n_ops}"), format!("v_b{}", fresh.len()));
    let body: Vec<(String, Expect)> = vec![
        (format!("display(({a} == {b}).to_str())"), Expect::Exact("true".into())),
        (format!("display(({b} == {a}).to_str())"), Expect::Exact("true".into())),
        (format!("display(({a} != {b}).to_str())"), Expect::Exact("false".into())),
        (format!("display((hash({a}) == hash({b})).to_str())"), Expect::Exact("true".into())),
        (format!("display((hash({a}) >= 0 && hash({a}) < 2 ** 64).to_str())"), Expect::Exact("true".into())),
        (format!("display({a}.len())"), Expect::Exact(model.len().to_string())),
        // a sequence / tuple / optional of the two inherit it
        (format!("display(([{a}] == [{b}]).to_str())"), Expect::Exact("true".into())),
        (format!("display((hash(({a}, 1)) == hash(({b}, 1))).to_str())"), Expect::Exact("true".into())),
        (format!("display((hash(some({a})) == hash(some({b}))).to_str())"), Expect::Exact("true".into())),
    ];
    text.push_str("fn main()->bool{\n");
    let mut expected = vec![];
    for (j, (ex, x)) in body.into_iter().enumerate() {
        text.push_str(&format!("    let v_o{j} = {ex};\n"));
        expected.push(x);
    }
    text.push_str("    true\n}\n");
    Case { text, expected, label: format!("C19 collection-coherence {} {} e={e} m={m} ops={n_ops} size={}", if is_set { "set" } else { "mapping" }, if native { "native-hash" } else { "user-hash" }, model.len()), pair_mode: false }
}

fn check_output(c: &Case, out: &str) -> Option<String> {
    if c.pair_mode {
        let mut hit = false;
        let mut idx = 0usize;
        for l in out.lines() {
            if l == "HIT" {
                hit = true;
                continue;
            }
            let Some(e) = c.expected.get(idx) else { return Some(format!("more result lines than expected: {l}")) };
            let ok = if hit {
                l == "ERR:poison"
            } else {
                match e {
                    Expect::Exact(s) => l == s,
                    Expect::OneOf(v) => v.iter().any(|s| s == l),
                }
            };
            if !ok {
                return Some(format!(
                    "result #{idx}: comparator {} during this call, got {}, expected {}",
                    if hit { "returned its error" } else { "never failed" },
                    l.chars().take(200).collect::<String>(),
                    if hit { "ERR:poison".to_string() } else { format!("{e:?}").chars().take(200).collect::<String>() }
                ));
            }
            hit = false;
            idx += 1;
        }
        if idx != c.expected.len() {
            return Some(format!("{idx} result lines, {} expected", c.expected.len()));
        }
        return None;
    }
    let lines: Vec<&str> = out.lines().collect();
    if lines.len() != c.expected.len() {
        return Some(format!("{} lines printed, {} expected: {:?}", lines.len(), c.expected.len(), lines.iter().take(3).collect::<Vec<_>>()));
    }
    let names = ["sort", "sort_reverse", "n_largest", "n_smallest", "nth_largest", "nth_smallest", "median", "input-after", "resort"];
    for (i, (l, e)) in lines.iter().zip(c.expected.iter()).enumerate() {
        let ok = match e {
            Expect::Exact(s) => l == s,
            Expect::OneOf(v) => v.iter().any(|s| s == l),
        };
        if !ok {
            let name = if c.expected.len() == names.len() && c.label.contains(" K=") { names[i] } else { "observation" };
            return Some(format!("{name}: got {}, reference {:?}", l.chars().take(300).collect::<String>(), e));
        }
    }
    None
}

pub fn lengths(thorough: bool) -> Vec<usize> {
    if thorough {
        vec![0, 1, 2, 3, 4, 5, 8, 9, 10, 11, 19, 20, 21, 22, 25, 31, 32, 33, 40, 41, 50, 63, 64, 65, 80, 100, 127, 128, 129, 160, 199, 200]
    } else {
        vec![0, 1, 2, 3, 5, 10, 19, 20, 21, 22, 33, 41, 64, 100, 200]
    }
}

pub fn make(spec: &JobSpec, ex: &mut Executor, out: &mut JobResult) -> Option<Box<dyn Job>> {
    match spec.kind.as_str() {
        "reference" => {
            let mut rng = Prng::new(spec.seed);
            let len = spec.params.get("len")?.as_u64()? as usize;
            let count = spec.params.get("count").and_then(|v| v.as_u64()).unwrap_or(4) as usize;
            let poison_max = spec.params.get("poison_max").and_then(|v| v.as_u64()).unwrap_or(12) as usize;
            let mut cases = vec![];
            for _ in 0..count {
                let input = gen_input(&mut rng, len);
                let n = rng.below(len as u64 + 2) as usize;
                cases.push(case(&input, n, None));
                // poison every element (thinned for long inputs)
                let mut idxs: Vec<usize> = (0..len).collect();
                if idxs.len() > poison_max {
                    rng.shuffle(&mut idxs);
                    idxs.truncate(poison_max);
                    idxs.sort();
                }
                for i in idxs {
                    cases.push(case(&input, n.max(1), Some(input.values[i])));
                }
                // a comparator that fails on exactly one ordered pair: adjacent input pairs in both
                // orders (what run detection and insertion compare) plus seeded far pairs
                if len >= 2 {
                    let mut pairs: Vec<(usize, usize)> = vec![];
                    for i in 0..len - 1 {
                        pairs.push((i, i + 1));
                        pairs.push((i + 1, i));
                    }
                    for _ in 0..6 {
                        let a = rng.below(len as u64) as usize;
                        let b = rng.below(len as u64) as usize;
                        if a != b {
                            pairs.push((a, b));
                        }
                    }
                    if pairs.len() > poison_max * 2 {
                        rng.shuffle(&mut pairs);
                        pairs.truncate(poison_max * 2);
                    }
                    for (a, b) in pairs {
                        cases.push(case_with(&input, n.max(1), None, Some((input.values[a], input.values[b]))));
                    }
                }
            }
            if out.samples.len() < 2 {
                if let Some(c) = cases.iter().find(|c| c.label.contains("poison=none")) {
                    out.samples.push(json!({"kind": "reference", "label": c.label, "program": c.text.chars().take(1200).collect::<String>()}));
                }
            }
            Some(Box::new(RefJob { cases }))
        }
        "faults" => {
            let mut rng = Prng::new(spec.seed);
            let len = spec.params.get("len")?.as_u64()? as usize;
            let input = gen_input(&mut rng, len);
            let n = rng.below(len as u64 + 2) as usize;
            let c = case(&input, n, None);
            let mut sc = Scenario::standard(&c.text, Limits::calibration());
            sc.label = c.label.clone();
            sc.ops = super::c06::rerun_ops();
            let base = prepare_base(P, P, &sc, ex, out)?;
            let max = spec.params.get("max_points").and_then(|v| v.as_u64()).unwrap_or(60) as usize;
            let (points, nd) = sweep::points(&base, &[Kind::Calls, Kind::Size, Kind::Depth, Kind::Time], max, spec.seed);
            if out.samples.len() < 2 {
                out.samples.push(json!({"kind": "faults", "label": c.label, "comparator_calls_in_reference": nd.calls, "fault_points": points.len()}));
            }
            Some(Box::new(FaultJob { base, points: points.into_iter().map(|p| p.scenario).collect(), case: c }))
        }
        "seq-search" => {
            let mut rng = Prng::new(spec.seed);
            let c = seq_search_case(&mut rng);
            let mut sc = Scenario::standard(&c.text, Limits::calibration());
            sc.label = c.label.clone();
            sc.ops = super::c06::rerun_ops();
            let base = prepare_base(P, P, &sc, ex, out)?;
            // the fault-free run itself is compared with the harness-side lexicographic order
            if let Some(diff) = check_output(&c, &String::from_utf8_lossy(&base.reference.out[..base.reference.ops.get(1).map_or(0, |o| o.out_len).min(base.reference.out.len())])) {
                out.violate(violation(P, P, ("compare".into(), "derived sequence comparison differs from the lexicographic reference".into(), diff), &sc));
            }
            out.probe("sequence_comparisons_compared");
            let (points, _) = sweep::points(&base, &[Kind::Search], 64, spec.seed);
            Some(Box::new(FaultJob { base, points: points.into_iter().map(|p| p.scenario).collect(), case: c }))
        }
        "collection-coherence" => {
            let mut rng = Prng::new(spec.seed);
            let count = spec.params.get("count").and_then(|v| v.as_u64()).unwrap_or(20) as usize;
            let cases: Vec<Case> = (0..count).map(|_| collection_coherence_case(&mut rng)).collect();
            Some(Box::new(CollJob { cases, fixed: None }))
        }
        "coherence" => Some(Box::new(CoherenceJob)),
        "single" if spec.params.get("scenario").and_then(|s| s.get("label")).and_then(|l| l.as_str()) == Some("C19 coherence catalogue") => Some(Box::new(CoherenceJob)),
        "single" if spec.params.get("scenario").and_then(|s| s.get("label")).and_then(|l| l.as_str()).map_or(false, |l| l.starts_with("C19 collection-coherence ")) => {
            let sc: Scenario = serde_json::from_value(spec.params.get("scenario")?.clone()).ok()?;
            // the expectations do not depend on the seeded history except for the size, which the label carries
            let size = sc.label.split("size=").nth(1).and_then(|s| s.split_whitespace().next()).unwrap_or("0").to_string();
            let t = || Expect::Exact("true".into());
            let expected = vec![t(), t(), Expect::Exact("false".into()), t(), t(), Expect::Exact(size), t(), t(), t()];
            Some(Box::new(CollJob { cases: vec![Case { text: sc.program.clone(), expected, label: sc.label.clone(), pair_mode: false }], fixed: Some(sc) }))
        }
        "single" => {
            let sc: Scenario = serde_json::from_value(spec.params.get("scenario")?.clone()).ok()?;
            // rebuild the expectation from the label is not possible (inputs are seeded); the
            // replay compares against the plain fault-free run of the same program instead
            let mut plain = sc.clone();
            plain.limits = Limits::calibration();
            plain.ops = crate::engine::standard_ops();
            let reference = match ex.exec(&plain) {
                Exec::Run(r) => String::from_utf8_lossy(&r.out).to_string(),
                _ => String::new(),
            };
            let expected = reference.lines().map(|l| Expect::Exact(l.to_string())).collect();
            let case = Case { text: sc.program.clone(), expected, label: sc.label.clone(), pair_mode: false };
            if sc.ops == crate::engine::standard_ops() {
                Some(Box::new(RefJob { cases: vec![case] }))
            } else {
                let mut b = sc.clone();
                b.limits = Limits::calibration();
                let base = prepare_base(P, P, &b, ex, out)?;
                Some(Box::new(FaultJob { base, points: vec![sc], case }))
            }
        }
        k => {
            out.notes.push(format!("C19: unknown job kind {k}"));
            None
        }
    }
}

struct RefJob {
    cases: Vec<Case>,
}

fn balance_and_crash(sc: &Scenario, r: &RunResult, out: &mut JobResult) {
    for f in o_crash(r) {
        out.violate(violation(P, P, f, sc));
    }
    for f in o_balance(r) {
        let sig = format!("{} after sorting", f.1);
        out.violate(violation(P, P, (f.0, sig, f.2), sc));
    }
}

impl Job for RefJob {
    fn len(&self) -> usize {
        self.cases.len()
    }
    fn scenario(&mut self, i: usize) -> Scenario {
        let mut sc = Scenario::standard(&self.cases[i].text, Limits::calibration());
        sc.label = self.cases[i].label.clone();
        sc
    }
    fn judge(&mut self, i: usize, sc: &Scenario, r: Exec, out: &mut JobResult) {
        let c = &self.cases[i];
        let r = match r {
            Exec::Run(r) => r,
            Exec::CompileError(m) => {
                out.notes.push(format!("{}: does not compile: {}", c.label, m.chars().take(200).collect::<String>()));
                out.count("case_compile_failures", 1);
                return;
            }
            Exec::CompilePanic(p) => {
                out.violate(violation(P, P, ("crash".into(), crash_signature(&p), p.clone()), sc));
                return;
            }
        };
        out.absorb_run(&r);
        balance_and_crash(sc, &r, out);
        // the accounted total after dropping main's result equals the total after instantiation
        if let (Some(a), Some(b)) = (r.ops.first(), r.ops.get(2)) {
            if a.accounted != b.accounted {
                out.violate(violation(P, P, ("balance".into(), "accounted bytes do not return to the pre-call value after sorting".into(), format!("{} before, {} after", a.accounted, b.accounted)), sc));
            }
        }
        match r.main_outcome() {
            Outcome::Value(v) if v == "true" => {}
            other => {
                out.violate(violation(P, P, ("sort".into(), "sorting program did not complete".into(), format!("{other:?}")), sc));
                return;
            }
        }
        let text = String::from_utf8_lossy(&r.out).to_string();
        if let Some(diff) = check_output(c, &text) {
            let which = diff.split(':').next().unwrap_or("").to_string();
            let poisoned = !c.label.ends_with("poison=none");
            out.violate(violation(
                P,
                P,
                ("sort".into(), format!("{which}: {}", if poisoned { "failing comparator does not yield its failure / input disturbed" } else { "result differs from the reference stable sort" }), diff),
                sc,
            ));
        }
        let parts: Vec<&str> = c.label.split_whitespace().collect();
        out.tuples.insert(format!("{}|{}|{}|{}", parts.get(1).unwrap_or(&""), parts.get(2).unwrap_or(&""), parts.get(3).unwrap_or(&""), if c.label.ends_with("poison=none") { "ok" } else { "poison" }));
        if c.label.ends_with("poison=none") {
            out.probe("reference_compared");
        } else if c.pair_mode {
            out.probe("comparator_fails_on_one_ordered_pair");
            if text.contains("HIT") {
                out.probe("ordered_pair_failure_reached");
            }
        } else {
            out.probe("comparator_error_value_midway");
        }
    }
}

/// equal collections reached by different histories (`collection_coherence_case`)
struct CollJob {
    cases: Vec<Case>,
    /// replay: the recorded scenario, as it was
    fixed: Option<Scenario>,
}

impl Job for CollJob {
    fn len(&self) -> usize {
        self.cases.len()
    }
    fn scenario(&mut self, i: usize) -> Scenario {
        if let Some(sc) = &self.fixed {
            return sc.clone();
        }
        let mut sc = Scenario::standard(&self.cases[i].text, Limits::calibration());
        sc.label = self.cases[i].label.clone();
        // the bucket layout of the compared collections is part of what is varied
        sc.env.layout_seed = 1 + (i as u64 % 5);
        sc
    }
    fn judge(&mut self, i: usize, sc: &Scenario, r: Exec, out: &mut JobResult) {
        let c = &self.cases[i];
        let r = match r {
            Exec::Run(r) => r,
            Exec::CompileError(m) => {
                out.notes.push(format!("{}: does not compile: {}", c.label, m.chars().take(200).collect::<String>()));
                out.count("case_compile_failures", 1);
                return;
            }
            Exec::CompilePanic(p) => {
                out.violate(violation(P, P, ("crash".into(), crash_signature(&p), p.clone()), sc));
                return;
            }
        };
        out.absorb_run(&r);
        balance_and_crash(sc, &r, out);
        if !matches!(r.main_outcome(), Outcome::Value(v) if v == "true") {
            out.violate(violation(P, P, ("coherence".into(), "collection coherence program did not complete".into(), format!("{:?}", r.main_outcome())), sc));
            return;
        }
        let text = String::from_utf8_lossy(&r.out).to_string();
        let names = ["a == b", "b == a", "a != b", "hash(a) == hash(b)", "hash in range", "len", "[a] == [b]", "hash((a, 1)) == hash((b, 1))", "hash(some(a)) == hash(some(b))"];
        let lines: Vec<&str> = text.lines().collect();
        for (j, e) in c.expected.iter().enumerate() {
            let got = lines.get(j).copied().unwrap_or("<missing>");
            let ok = match e {
                Expect::Exact(x) => x == got,
                Expect::OneOf(xs) => xs.iter().any(|x| x == got),
            };
            if !ok {
                let kind = c.label.split_whitespace().nth(2).unwrap_or("collection");
                out.violate(violation(P, P, ("coherence".into(), format!("equal {kind}s reached by different histories: {} is not {:?}", names.get(j).unwrap_or(&"observation"), e), format!("got {got}")), sc));
                break;
            }
        }
        out.probe("collection_coherence_cases");
        let parts: Vec<&str> = c.label.split_whitespace().collect();
        out.tuples.insert(format!("coll|{}|{}|{}|{}", parts.get(2).unwrap_or(&""), parts.get(3).unwrap_or(&""), parts.get(4).unwrap_or(&""), parts.get(7).unwrap_or(&"")));
    }
}

struct FaultJob {
    base: Base,
    points: Vec<Scenario>,
    case: Case,
}

impl Job for FaultJob {
    fn len(&self) -> usize {
        self.points.len()
    }
    fn scenario(&mut self, i: usize) -> Scenario {
        self.points[i].clone()
    }
    fn judge(&mut self, _i: usize, sc: &Scenario, r: Exec, out: &mut JobResult) {
        let Exec::Run(r) = r else { return };
        out.absorb_run(&r);
        balance_and_crash(sc, &r, out);
        for f in o_uncaught(&r) {
            out.violate(violation(P, P, f, sc));
        }
        for f in o_count(sc, &r) {
            out.violate(violation(P, P, f, sc));
        }
        for f in o_transparent_ops(sc, &self.base.reference, &r) {
            out.violate(violation(P, P, f, sc));
        }
        // every complete run prints the reference (also the rerun after a violation)
        let mut tripped = false;
        for (i, op) in r.ops.iter().enumerate() {
            if op.outcome.violation_kind().is_some() {
                tripped = true;
                // nothing held by the host: the total is back to the pre-call value
                if i > 0 && r.ops[i - 1].accounted != op.accounted && matches!(r.ops[i - 1].outcome, Outcome::Unit) {
                    out.violate(violation(P, P, ("balance".into(), "a sort interrupted by a violation left bytes behind".into(), format!("host op {i}: {} before, {} after", r.ops[i - 1].accounted, op.accounted)), sc));
                }
            }
            if matches!(&op.outcome, Outcome::Value(v) if v == "true") {
                let start = if i == 0 { 0 } else { r.ops[i - 1].out_len };
                let seg = String::from_utf8_lossy(&r.out[start.min(r.out.len())..op.out_len.min(r.out.len())]).to_string();
                if let Some(diff) = check_output(&self.case, &seg) {
                    out.violate(violation(P, P, ("sort".into(), "result differs from the reference in a run that followed a violation".into(), diff), sc));
                }
                if tripped {
                    out.probe("rerun_after_interrupted_sort_matches_reference");
                }
            }
        }
        if tripped {
            out.probe("violation_inside_comparator");
        }
        let vk = r.ops.iter().find_map(|o| o.outcome.violation_kind()).unwrap_or("none").to_string();
        let parts: Vec<&str> = self.case.label.split_whitespace().collect();
        out.tuples.insert(format!("{}|{}|{}|{}", parts.get(1).unwrap_or(&""), parts.get(3).unwrap_or(&""), vk, r.fired_sites.first().cloned().unwrap_or_default()));
    }
}

// ------------------------------------------------------------------ coherence catalogue (fixed, not simulation)

/// (name, xray type, pool of literal expressions, has hash, has cmp)
const COHERENCE_TYPES: &[(&str, &str, &[&str], bool, bool)] = &[
    ("int", "int", &["0", "1", "0 - 1", "2 ** 64", "0 - 2 ** 64", "7", "2 ** 64 + 0", "2 ** 63"], true, true),
    ("float", "float", &["0.0", "-0.0", "1.5", "-1.5", "1e300", "-1e300", "0.1", "0.1 + 0.2 - 0.2", "0.0 * -1.0"], false, true),
    ("str", "str", &["\"\"", "\"a\"", "\"b\"", "\"é\"", "\"ab\"", "\"a\" + \"b\"", "\"A\"", "\"añbc\".get(0)", "\"añbc\".substring(2, 3)", "\"éab\".substring(1, 3)", "\"xé\".substring(1, 2)"], true, true),
    ("bool", "bool", &["true", "false", "1 == 1"], true, true),
    ("tuple-int-float", "(int, float)", &["(1, 0.0)", "(1, -0.0)", "(0, 1.5)", "(1, 1.5)", "(2, -1.5)", "(1, 0.0 * -1.0)"], false, true),
    ("tuple-int-str", "(int, str)", &["(1, \"a\")", "(1, \"b\")", "(0, \"z\")", "(1, \"a\" + \"\")", "(2, \"\")", "(1, \"añbc\".get(0))"], true, true),
    ("seq-float", "Sequence<float>", &["[0.0]", "[-0.0]", "cast<Sequence<float>>([])", "[1.5, 0.0]", "[1.5, -0.0]", "[1.5]"], false, true),
    ("seq-int", "Sequence<int>", &["[1, 2]", "[1, 2, 3]", "cast<Sequence<int>>([])", "[2]", "range(1, 3).to_array()", "range(1, 3)"], true, true),
    // the same elements under different representations: ranges whose bounds differ, a materialised copy, a slice
    ("seq-int-representations", "Sequence<int>", &["range(0, 10, 3)", "range(0, 12, 3)", "[0, 3, 6, 9]", "range(10, 0, 0 - 3)", "range(10, 0 - 1, 0 - 3)", "[10, 7, 4, 1]", "range(0, 1, 5)", "range(0, 3, 7)", "[0]", "range(0, 20, 3).take(4)", "range(0, 4).map((v_x: int)->{v_x * 3})"], true, true),
    // stacks that hold the same element *object* (a variable pushed onto both) above different elements
    ("stack-shared-element", "Stack<int>", &["stack().push(1).push(v_shared)", "stack().push(2).push(v_shared)", "stack().push(1).push(7)", "stack().push(v_shared)", "stack().push(v_shared).push(1)", "stack().push(v_shared).push(2)", "stack().push(1).push(v_shared).tail()"], true, false),
    ("struct-diff-cmp", "V_D", &["V_D(1)", "V_D(5)", "V_D(2)", "V_D(5)", "V_D(0 - 4)", "V_D(100)"], true, true),
    ("tuple-of-struct-diff-cmp", "(V_D, int)", &["(V_D(1), 0)", "(V_D(5), 0)", "(V_D(5), 1)", "(V_D(0 - 4), 9)", "(V_D(100), 0)"], true, true),
    ("seq-of-struct-diff-cmp", "Sequence<V_D>", &["[V_D(1)]", "[V_D(5)]", "[V_D(5), V_D(1)]", "[V_D(0 - 4)]", "cast<Sequence<V_D>>([])"], true, true),
    ("optional-int", "Optional<int>", &["some(0)", "some(1)", "cast<Optional<int>>(none())", "some(2 - 1)"], true, false),
    ("optional-float", "Optional<float>", &["some(0.0)", "some(-0.0)", "cast<Optional<float>>(none())", "some(1.5)"], false, false),
];

pub fn coherence_program() -> (String, usize) {
    let mut text = String::from("let v_shared = 7;\nfn v_sgn(v_x: int)->int{ if(v_x < 0, 0 - 1, if(v_x > 0, 1, 0)) }\n");
    // a user type whose cmp returns differences (any negative / positive number, not just -1 / 1)
    text.push_str("struct V_D(v_x: int)\nfn cmp(v_a: V_D, v_b: V_D)->int{ v_a::v_x - v_b::v_x }\nfn eq(v_a: V_D, v_b: V_D)->bool{ v_a::v_x == v_b::v_x }\nfn hash(v_a: V_D)->int{ v_a::v_x % 7 + 7 }\n");
    let mut body = vec![];
    for (name, ty, pool, has_hash, has_cmp) in COHERENCE_TYPES {
        let id = name.replace('-', "_");
        let mut rel = String::from("((v_a == v_b) == (v_b == v_a)) && ((v_a != v_b) == !(v_a == v_b))");
        if *has_cmp {
            rel.push_str(" && ((v_a == v_b) == (cmp(v_a, v_b) == 0)) && ((v_a < v_b) == (cmp(v_a, v_b) < 0)) && ((v_a <= v_b) == (cmp(v_a, v_b) <= 0)) && ((v_a > v_b) == (cmp(v_a, v_b) > 0)) && ((v_a >= v_b) == (cmp(v_a, v_b) >= 0)) && (v_sgn(cmp(v_a, v_b)) == 0 - v_sgn(cmp(v_b, v_a)))");
        }
        if *has_hash {
            rel.push_str(" && (!(v_a == v_b) || hash(v_a) == hash(v_b)) && hash(v_a) >= 0 && hash(v_a) < 2 ** 64");
        }
        if matches!(*name, "int" | "float" | "str") {
            rel.push_str(" && format(v_a, \"\") == to_str(v_a)");
        }
        if *name == "float" {
            // equal values format equally, under every specifier (0.0 and -0.0 are equal)
            rel.push_str(" && (!(v_a == v_b) || (format(v_a, \".1f\") == format(v_b, \".1f\") && format(v_a, \"+.2f\") == format(v_b, \"+.2f\") && format(v_a, \"08.1f\") == format(v_b, \"08.1f\") && format(v_a, \" .1e\") == format(v_b, \" .1e\") && format(v_a, \".0%\") == format(v_b, \".0%\")))");
        }
        if *name == "int" {
            rel.push_str(" && (!(v_a == v_b) || (format(v_a, \"+,\") == format(v_b, \"+,\") && format(v_a, \"08\") == format(v_b, \"08\")))");
        }
        text.push_str(&format!("fn v_rel_{id}(v_a: {ty}, v_b: {ty})->bool{{ {rel} }}\n"));
        text.push_str(&format!("let v_pool_{id} = [{}];\n", pool.iter().map(|p| format!("cast<{ty}>({p})")).collect::<Vec<_>>().join(", ")));
        let n = pool.len();
        // failing pairs
        text.push_str(&format!(
            "fn v_bad_{id}()->Sequence<int>{{ range({nn}).filter((v_i: int)->{{ !v_rel_{id}(v_pool_{id}[floor(v_i / {n})], v_pool_{id}[v_i % {n}]) }}).to_array() }}\n",
            nn = n * n
        ));
        body.push(format!("display(\"{name} pairs \" + v_bad_{id}().to_str())"));
        if *has_cmp {
            // transitivity of <= over all triples, and reflexivity of eq
            text.push_str(&format!(
                "fn v_trans_{id}()->Sequence<int>{{ range({nnn}).filter((v_i: int)->{{ cmp(v_pool_{id}[floor(v_i / {n2})], v_pool_{id}[floor(v_i / {n}) % {n}]) <= 0 && cmp(v_pool_{id}[floor(v_i / {n}) % {n}], v_pool_{id}[v_i % {n}]) <= 0 && !(cmp(v_pool_{id}[floor(v_i / {n2})], v_pool_{id}[v_i % {n}]) <= 0) }}).to_array() }}\n",
                nnn = n * n * n,
                n2 = n * n
            ));
            body.push(format!("display(\"{name} triples \" + v_trans_{id}().to_str())"));
            // sorting a sequence of equal-comparing but distinguishable pairs keeps their order
            text.push_str(&format!(
                "fn v_stable_{id}()->bool{{ let v_tagged = range({n}).map((v_i: int)->{{(v_pool_{id}[v_i], v_i)}}).to_array(); let v_sorted = v_tagged.sort((v_x: ({ty}, int), v_y: ({ty}, int))->{{cmp(v_x::item0, v_y::item0)}}); range({nm1}).all((v_i: int)->{{ cmp(v_sorted[v_i]::item0, v_sorted[v_i + 1]::item0) < 0 || (cmp(v_sorted[v_i]::item0, v_sorted[v_i + 1]::item0) == 0 && v_sorted[v_i]::item1 < v_sorted[v_i + 1]::item1) }}) }}\n",
                nm1 = n - 1
            ));
            body.push(format!("display(\"{name} stable \" + v_stable_{id}().to_str())"));
        }
    }
    // format: a width is a minimum width in characters - padded up to it, never truncated - whatever the
    // fill, alignment, grouping, precision and mode are (lang/std_conventions.md#formatting)
    text.push_str("let v_fw = [1, 5, 8, 12, 30];\nlet v_fa = [\"\", \"<\", \">\", \"^\", \"!<\", \"*^\", \"_>\"];\n");
    text.push_str("let v_fstr = [\"\", \"a\", \"blash\", \"héllo\", \"日本\", \"日本語 text\", \"añbc\".substring(1, 3)];\n");
    text.push_str("fn v_fbad_str(v_i: int)->bool{ let v_s = v_fstr[floor(v_i / 35)]; let v_w = v_fw[floor(v_i / 7) % 5]; let v_a = v_fa[v_i % 7]; format(v_s, v_a + v_w.to_str()).len() != max(v_w, v_s.len()) }\n");
    text.push_str("fn v_fmt_str()->Sequence<int>{ range(245).filter(v_fbad_str).to_array() }\n");
    body.push("display(\"format-width str \" + v_fmt_str().to_str())".to_string());
    text.push_str("let v_fint = [0, 7, 0 - 12345678, 2 ** 70, 1000];\nlet v_fib = [\"\", \",\", \"_\"];\n");
    text.push_str("fn v_fbad_int(v_i: int)->bool{ let v_x = v_fint[floor(v_i / 105)]; let v_b = v_fib[floor(v_i / 35) % 3]; let v_w = v_fw[floor(v_i / 7) % 5]; let v_a = v_fa[v_i % 7]; format(v_x, v_a + v_w.to_str() + v_b).len() != max(v_w, format(v_x, v_b).len()) }\n");
    text.push_str("fn v_fmt_int()->Sequence<int>{ range(525).filter(v_fbad_int).to_array() }\n");
    body.push("display(\"format-width int \" + v_fmt_int().to_str())".to_string());
    text.push_str("let v_ffl = [0.0, 1.5, -1234567.891, 1e10, 0.000123];\nlet v_ffb = [\".2f\", \",.2f\", \"_.1f\", \".3e\", \",.1%\", \",\"];\n");
    text.push_str("fn v_fbad_float(v_i: int)->bool{ let v_x = v_ffl[floor(v_i / 210)]; let v_b = v_ffb[floor(v_i / 35) % 6]; let v_w = v_fw[floor(v_i / 7) % 5]; let v_a = v_fa[v_i % 7]; format(v_x, v_a + v_w.to_str() + v_b).len() != max(v_w, format(v_x, v_b).len()) }\n");
    text.push_str("fn v_fmt_float()->Sequence<int>{ range(1050).filter(v_fbad_float).to_array() }\n");
    body.push("display(\"format-width float \" + v_fmt_float().to_str())".to_string());
    text.push_str("fn main()->bool{\n");
    for (j, b) in body.iter().enumerate() {
        text.push_str(&format!("    let v_o{j} = {b};\n"));
    }
    text.push_str("    true\n}\n");
    (text, body.len())
}

pub struct CoherenceJob;

impl Job for CoherenceJob {
    fn len(&self) -> usize {
        1
    }
    fn scenario(&mut self, _i: usize) -> Scenario {
        let (text, _) = coherence_program();
        let mut sc = Scenario::standard(&text, Limits::calibration());
        sc.label = "C19 coherence catalogue".to_string();
        sc
    }
    fn judge(&mut self, _i: usize, sc: &Scenario, r: Exec, out: &mut JobResult) {
        let r = match r {
            Exec::Run(r) => r,
            Exec::CompileError(m) => {
                out.notes.push(format!("coherence catalogue does not compile: {}", m.chars().take(300).collect::<String>()));
                out.count("case_compile_failures", 1);
                return;
            }
            Exec::CompilePanic(p) => {
                out.violate(violation(P, P, ("crash".into(), crash_signature(&p), p.clone()), sc));
                return;
            }
        };
        out.absorb_run(&r);
        balance_and_crash(sc, &r, out);
        let text = String::from_utf8_lossy(&r.out).to_string();
        if !matches!(r.main_outcome(), Outcome::Value(v) if v == "true") {
            out.violate(violation(P, P, ("coherence".into(), "coherence catalogue did not complete".into(), format!("{:?}", r.main_outcome())), sc));
            return;
        }
        for line in text.lines() {
            let ok = line.ends_with(" []") || line.ends_with(" true");
            let mut parts = line.splitn(3, ' ');
            let (ty, what) = (parts.next().unwrap_or(""), parts.next().unwrap_or(""));
            if !ok {
                out.violate(violation(
                    P,
                    P,
                    (
                        "coherence".into(),
                        if ty == "format-width" { format!("format of {what}: the padded length is not max(width, unpadded length)") } else { format!("{ty}: eq / cmp / hash / relational operators disagree ({what})") },
                        format!("{line} (indices are i*n+j over the type's value pool)"),
                    ),
                    sc,
                ));
            }
            out.tuples.insert(format!("coherence|{ty}|{what}"));
            out.probe("coherence_relations_checked");
        }
    }
}
