//! C07 — tail-call optimisation is transparent.
//!
//! Fixed catalogue of self-call placements × iteration counts × depth/recursion fault points.
//! The property's observables are *defined* through limit configurations, so the deciding step is
//! where a depth or recursion fault does or does not land, against closed-form predictions.

use super::violation;
use crate::engine::{Limits, Outcome, Scenario};
use crate::job::{Exec, Executor, Job, JobResult, JobSpec};
use crate::oracles::{crash_signature, o_count, o_crash, o_uncaught};
use serde_json::json;

const P: &str = "C07";

pub struct Placement {
    pub name: &'static str,
    /// declaration of v_f (and helpers); `main` is generated
    pub decl: &'static str,
    /// main's return type and body template with {N}
    pub main_ty: &'static str,
    pub main_body: &'static str,
    pub tail: bool,
    /// dump of the value as a function of n
    pub value: fn(u64) -> String,
    /// user frames added per iteration when not optimised
    pub frames_per_level: u64,
    /// user calls added per iteration when not optimised
    pub calls_per_level: u64,
    /// extra user calls/frames made once (e.g. map_or's lambda), beyond main and the first v_f
    pub extra_calls: u64,
    pub extra_height: u64,
    /// the self-call passes an error argument: from n >= 1 the call yields error "boom" without recursing
    pub error_arg: bool,
}

fn vn(n: u64) -> String {
    n.to_string()
}
fn vtrue(_: u64) -> String {
    "true".into()
}
fn vfalse(_: u64) -> String {
    "false".into()
}
fn vzero(_: u64) -> String {
    "0".into()
}
/// first step adds the explicit 5, every later one the default 1
fn vdefault(n: u64) -> String {
    if n == 0 { "0".into() } else { (5 + (n - 1)).to_string() }
}
fn vq(_: u64) -> String {
    "\"q\"".into()
}

pub fn catalogue() -> Vec<Placement> {
    let ii = "int";
    let t = |name, decl, tail, frames_per_level| Placement {
        name,
        decl,
        main_ty: ii,
        main_body: "v_f({N}, 0)",
        tail,
        value: vn,
        frames_per_level,
        calls_per_level: frames_per_level,
        extra_calls: 0,
        extra_height: 0,
        error_arg: false,
    };
    vec![
        // ---------------- tail positions
        t("tail/if-else", "fn v_f(v_n: int, v_a: int)->int{ if(v_n == 0, v_a, v_f(v_n - 1, v_a + 1)) }", true, 1),
        t("tail/if-then", "fn v_f(v_n: int, v_a: int)->int{ if(v_n != 0, v_f(v_n - 1, v_a + 1), v_a) }", true, 1),
        t("tail/if-method", "fn v_f(v_n: int, v_a: int)->int{ (v_n == 0).if(v_a, v_f(v_n - 1, v_a + 1)) }", true, 1),
        t("tail/if-nested", "fn v_f(v_n: int, v_a: int)->int{ if(v_n == 0, v_a, if(v_n % 2 == 0, v_f(v_n - 1, v_a + 1), v_f(v_n - 1, v_a + 1))) }", true, 1),
        t("tail/let-then-if", "fn v_f(v_n: int, v_a: int)->int{ let v_m = v_n - 1; if(v_n == 0, v_a, v_f(v_m, v_a + 1)) }", true, 1),
        t("tail/if_error-2", "fn v_f(v_n: int, v_a: int)->int{ if_error(if(v_n == 0, v_a, error(\"more\")), v_f(v_n - 1, v_a + 1)) }", true, 1),
        t("tail/if_error-3", "fn v_f(v_n: int, v_a: int)->int{ if_error(if(v_n == 0, v_a, error(\"more\")), \"more\", v_f(v_n - 1, v_a + 1)) }", true, 1),
        Placement { name: "tail/bool-or", decl: "fn v_f(v_n: int)->bool{ v_n == 0 || v_f(v_n - 1) }", main_ty: "bool", main_body: "v_f({N})", tail: true, value: vtrue, frames_per_level: 1, calls_per_level: 1, extra_calls: 0, extra_height: 0, error_arg: false },
        Placement { name: "tail/bool-and", decl: "fn v_f(v_n: int)->bool{ v_n != 0 && v_f(v_n - 1) }", main_ty: "bool", main_body: "v_f({N})", tail: true, value: vfalse, frames_per_level: 1, calls_per_level: 1, extra_calls: 0, extra_height: 0, error_arg: false },
        t("tail/cast", "fn v_f(v_n: int, v_a: int)->int{ cast<int>(if(v_n == 0, v_a, v_f(v_n - 1, v_a + 1))) }", true, 1),
        t("tail/optional-or-value", "fn v_f(v_n: int, v_a: int)->int{ if(v_n == 0, some(v_a), none()).or(v_f(v_n - 1, v_a + 1)) }", true, 1),
        Placement { name: "tail/optional-or-optional", decl: "fn v_f(v_n: int, v_a: int)->Optional<int>{ if(v_n == 0, some(v_a), none()).or(v_f(v_n - 1, v_a + 1)) }", main_ty: ii, main_body: "v_f({N}, 0).value()", tail: true, value: vn, frames_per_level: 1, calls_per_level: 1, extra_calls: 0, extra_height: 0, error_arg: false },
        Placement { name: "tail/optional-and", decl: "fn v_f(v_n: int, v_a: int)->Optional<int>{ if(v_n == 0, none(), some(1)).and(v_f(v_n - 1, v_a + 1)) }", main_ty: "bool", main_body: "v_f({N}, 0).has_value()", tail: true, value: vfalse, frames_per_level: 1, calls_per_level: 1, extra_calls: 0, extra_height: 0, error_arg: false },
        Placement { name: "tail/map_or-default", decl: "fn v_f(v_n: int, v_a: int)->int{ map_or(if(v_n == 0, some(v_a), none()), (v_x: int)->{v_x}, v_f(v_n - 1, v_a + 1)) }", main_ty: ii, main_body: "v_f({N}, 0)", tail: true, value: vn, frames_per_level: 1, calls_per_level: 1, extra_calls: 1, extra_height: 1, error_arg: false },
        t("tail/unit-and", "fn v_f(v_n: int, v_a: int)->int{ ().and(if(v_n == 0, v_a, v_f(v_n - 1, v_a + 1))) }", true, 1),
        Placement { name: "tail/to_str-identity", decl: "fn v_f(v_n: int, v_a: str)->str{ to_str(if(v_n == 0, v_a, v_f(v_n - 1, v_a))) }", main_ty: "str", main_body: "v_f({N}, \"q\")", tail: true, value: vq, frames_per_level: 1, calls_per_level: 1, extra_calls: 0, extra_height: 0, error_arg: false },
        Placement { name: "tail/error-argument-unread", decl: "fn v_f(v_n: int, v_a: int, v_u: int)->int{ if(v_n == 0, v_a, v_f(v_n - 1, v_a + 1, error(\"boom\"))) }", main_ty: ii, main_body: "v_f({N}, 0, 0)", tail: true, value: vzero, frames_per_level: 1, calls_per_level: 1, extra_calls: 0, extra_height: 0, error_arg: true },
        Placement { name: "tail/error-argument-via-if_error", decl: "fn v_f(v_n: int, v_a: int, v_u: int)->int{ if_error(if(v_n == 0, v_a, error(\"more\")), \"more\", v_f(v_n - 1, v_a + 1, error(\"boom\"))) }", main_ty: ii, main_body: "v_f({N}, 0, 0)", tail: true, value: vzero, frames_per_level: 1, calls_per_level: 1, extra_calls: 0, extra_height: 0, error_arg: true },
        Placement { name: "tail/default-param-omitted", decl: "fn v_f(v_n: int, v_a: int, v_s: int ?= 1)->int{ if(v_n == 0, v_a, v_f(v_n - 1, v_a + v_s)) }", main_ty: ii, main_body: "v_f({N}, 0, 5)", tail: true, value: vdefault, frames_per_level: 1, calls_per_level: 1, extra_calls: 0, extra_height: 0, error_arg: false },
        // ---------------- not tail positions
        Placement { name: "nontail/default-param-omitted", decl: "fn v_f(v_n: int, v_a: int, v_s: int ?= 1)->int{ if(v_n == 0, v_a, 0 + v_f(v_n - 1, v_a + v_s)) }", main_ty: ii, main_body: "v_f({N}, 0, 5)", tail: false, value: vdefault, frames_per_level: 1, calls_per_level: 1, extra_calls: 0, extra_height: 0, error_arg: false },
        Placement { name: "nontail/error-argument-unread", decl: "fn v_f(v_n: int, v_a: int, v_u: int)->int{ if(v_n == 0, v_a, 0 + v_f(v_n - 1, v_a + 1, error(\"boom\"))) }", main_ty: ii, main_body: "v_f({N}, 0, 0)", tail: false, value: vzero, frames_per_level: 1, calls_per_level: 1, extra_calls: 0, extra_height: 0, error_arg: true },
        Placement { name: "nontail/under-operator", decl: "fn v_f(v_n: int)->int{ if(v_n == 0, 0, 1 + v_f(v_n - 1)) }", main_ty: ii, main_body: "v_f({N})", tail: false, value: vn, frames_per_level: 1, calls_per_level: 1, extra_calls: 0, extra_height: 0, error_arg: false },
        Placement { name: "nontail/arg-of-user-fn", decl: "fn v_id(v_x: int)->int{ v_x }\nfn v_f(v_n: int, v_a: int)->int{ if(v_n == 0, v_a, v_id(v_f(v_n - 1, v_a + 1))) }", main_ty: ii, main_body: "v_f({N}, 0)", tail: false, value: vn, frames_per_level: 1, calls_per_level: 2, extra_calls: 0, extra_height: 0, error_arg: false },
        Placement { name: "nontail/in-tuple", decl: "fn v_f(v_n: int, v_a: int)->(int, int){ if(v_n == 0, (v_a, 0), (v_f(v_n - 1, v_a + 1)::item0, 0)) }", main_ty: ii, main_body: "v_f({N}, 0)::item0", tail: false, value: vn, frames_per_level: 1, calls_per_level: 1, extra_calls: 0, extra_height: 0, error_arg: false },
        t("nontail/in-array", "fn v_f(v_n: int, v_a: int)->int{ if(v_n == 0, v_a, [v_f(v_n - 1, v_a + 1)].get(0)) }", false, 1),
        t("nontail/inside-lambda", "fn v_f(v_n: int, v_a: int)->int{ if(v_n == 0, v_a, ((v_x: int)->{v_f(v_x, v_a + 1)})(v_n - 1)) }", false, 2),
        t("nontail/via-alias", "fn v_f(v_n: int, v_a: int)->int{ let v_g = v_f; if(v_n == 0, v_a, v_g(v_n - 1, v_a + 1)) }", false, 1),
        t("nontail/via-partial", "fn v_f(v_n: int, v_a: int)->int{ if(v_n == 0, v_a, partial(v_f, v_n - 1)(v_a + 1)) }", false, 1),
        t("nontail/other-function", "fn v_f(v_n: int, v_a: int)->int{ fn v_h(v_m: int, v_b: int)->int{ v_f(v_m, v_b) } if(v_n == 0, v_a, v_h(v_n - 1, v_a + 1)) }", false, 2),
        Placement { name: "nontail/if-condition", decl: "fn v_f(v_n: int)->bool{ if(v_n == 0, true, if(v_f(v_n - 1), true, false)) }", main_ty: "bool", main_body: "v_f({N})", tail: false, value: vtrue, frames_per_level: 1, calls_per_level: 1, extra_calls: 0, extra_height: 0, error_arg: false },
        Placement { name: "nontail/or-first-arg", decl: "fn v_f(v_n: int)->bool{ v_n == 0 || (v_f(v_n - 1) || false) }", main_ty: "bool", main_body: "v_f({N})", tail: false, value: vtrue, frames_per_level: 1, calls_per_level: 1, extra_calls: 0, extra_height: 0, error_arg: false },
        // closures of the frame (a lambda, an inner function) capture the parameters of *this* iteration
        Placement { name: "tail/lambda-captures-parameter", decl: "fn v_f(v_n: int, v_a: int)->int{ let v_g = (v_x: int)->{ v_x + v_n }; let v_y = v_g(0); if(v_n == 0, v_a, v_f(v_n - 1, v_a + v_y - v_n + 1)) }", main_ty: ii, main_body: "v_f({N}, 0)", tail: true, value: vn, frames_per_level: 1, calls_per_level: 2, extra_calls: 0, extra_height: 1, error_arg: false },
        Placement { name: "tail/inner-fn-captures-parameter", decl: "fn v_f(v_n: int, v_a: int)->int{ fn v_g(v_x: int)->int{ v_x + v_n } let v_y = v_g(0); if(v_n == 0, v_a, v_f(v_n - 1, v_a + v_y - v_n + 1)) }", main_ty: ii, main_body: "v_f({N}, 0)", tail: true, value: vn, frames_per_level: 1, calls_per_level: 2, extra_calls: 0, extra_height: 1, error_arg: false },
        Placement { name: "tail/lambda-captures-local", decl: "fn v_f(v_n: int, v_a: int)->int{ let v_m = v_n * 2; let v_g = ()->{ v_m }; let v_y = v_g(); if(v_n == 0, v_a, v_f(v_n - 1, v_a + v_y - v_n * 2 + 1)) }", main_ty: ii, main_body: "v_f({N}, 0)", tail: true, value: vn, frames_per_level: 1, calls_per_level: 2, extra_calls: 0, extra_height: 1, error_arg: false },
        // the self-call is the right operand of a short-circuit / lazy operator that is itself NOT in tail position
        Placement { name: "nontail/or-right-under-not", decl: "fn v_f(v_n: int)->bool{ !(v_n == 0 || !v_f(v_n - 1)) }", main_ty: "bool", main_body: "v_f({N})", tail: false, value: vfalse, frames_per_level: 1, calls_per_level: 1, extra_calls: 0, extra_height: 0, error_arg: false },
        Placement { name: "nontail/and-right-under-not", decl: "fn v_f(v_n: int)->bool{ !(v_n != 0 && !v_f(v_n - 1)) }", main_ty: "bool", main_body: "v_f({N})", tail: false, value: vtrue, frames_per_level: 1, calls_per_level: 1, extra_calls: 0, extra_height: 0, error_arg: false },
        Placement { name: "nontail/or-right-in-if-condition", decl: "fn v_f(v_n: int)->bool{ if(v_n == 0 || v_f(v_n - 1), true, false) }", main_ty: "bool", main_body: "v_f({N})", tail: false, value: vtrue, frames_per_level: 1, calls_per_level: 1, extra_calls: 0, extra_height: 0, error_arg: false },
        Placement { name: "nontail/or-right-then-and", decl: "fn v_f(v_n: int)->bool{ (v_n == 0 || v_f(v_n - 1)) && true }", main_ty: "bool", main_body: "v_f({N})", tail: false, value: vtrue, frames_per_level: 1, calls_per_level: 1, extra_calls: 0, extra_height: 0, error_arg: false },
        Placement { name: "nontail/or-right-let-bound", decl: "fn v_f(v_n: int)->bool{ let v_r = v_n == 0 || v_f(v_n - 1); v_r }", main_ty: "bool", main_body: "v_f({N})", tail: false, value: vtrue, frames_per_level: 1, calls_per_level: 1, extra_calls: 0, extra_height: 0, error_arg: false },
        t("nontail/optional-or-under-operator", "fn v_f(v_n: int, v_a: int)->int{ 0 + if(v_n == 0, some(v_a), none()).or(v_f(v_n - 1, v_a + 1)) }", false, 1),
        t("nontail/if_error-2-under-operator", "fn v_f(v_n: int, v_a: int)->int{ 0 + if_error(if(v_n == 0, v_a, error(\"more\")), v_f(v_n - 1, v_a + 1)) }", false, 1),
        t("nontail/if-under-cast-under-operator", "fn v_f(v_n: int, v_a: int)->int{ 0 + cast<int>(if(v_n == 0, v_a, v_f(v_n - 1, v_a + 1))) }", false, 1),
        t("nontail/if_error-protected", "fn v_f(v_n: int, v_a: int)->int{ if(v_n == 0, v_a, if_error(v_f(v_n - 1, v_a + 1), 0 - 1)) }", false, 1),
    ]
}

pub fn program(p: &Placement, n: u64) -> String {
    format!("{}\nfn main()->{}{{ {} }}\n", p.decl, p.main_ty, p.main_body.replace("{N}", &n.to_string()))
}

pub fn make(spec: &JobSpec, _ex: &mut Executor, out: &mut JobResult) -> Option<Box<dyn Job>> {
    match spec.kind.as_str() {
        "placement" => {
            let name = spec.params.get("placement")?.as_str()?.to_string();
            let ns: Vec<u64> = serde_json::from_value(spec.params.get("counts")?.clone()).ok()?;
            let cat = catalogue();
            let idx = cat.iter().position(|p| p.name == name)?;
            let mut cases = vec![];
            for n in ns {
                cases.extend(cases_for(&cat[idx], n));
            }
            if out.samples.len() < 3 {
                out.samples.push(json!({"placement": name, "program": program(&cat[idx], 3), "tail": cat[idx].tail,
                    "limits_tried": cases.iter().take(8).map(|c| &c.limits).collect::<Vec<_>>() }));
            }
            Some(Box::new(PlacementJob { cat, idx, cases }))
        }
        "single" => {
            let sc: Scenario = serde_json::from_value(spec.params.get("scenario")?.clone()).ok()?;
            // label = "C07 <placement> n=<n>"
            let mut it = sc.label.split_whitespace();
            let _ = it.next();
            let name = it.next()?.to_string();
            let n: u64 = it.next()?.strip_prefix("n=")?.parse().ok()?;
            let cat = catalogue();
            let idx = cat.iter().position(|p| p.name == name)?;
            Some(Box::new(PlacementJob { cat, idx, cases: vec![Case { n, limits: sc.limits.clone() }] }))
        }
        k => {
            out.notes.push(format!("C07: unknown job kind {k}"));
            None
        }
    }
}

struct Case {
    n: u64,
    limits: Limits,
}

struct PlacementJob {
    cat: Vec<Placement>,
    idx: usize,
    cases: Vec<Case>,
}

/// deepest user frame of the fault-free run: main is at height 1, the first v_f at 2
fn height(p: &Placement, n: u64) -> u64 {
    if p.error_arg {
        2
    } else if p.tail {
        2 + p.extra_height
    } else {
        2 + p.frames_per_level * n
    }
}

/// tail placements whose body calls a closure of the frame once per iteration (encoded as
/// `calls_per_level == 2` on a tail placement): n + 1 frames, n + 1 inner calls, each one frame deep
fn inner_call_each_iteration(p: &Placement) -> bool {
    p.tail && p.calls_per_level == 2
}

fn calls(p: &Placement, n: u64) -> u64 {
    if p.error_arg {
        2
    } else if inner_call_each_iteration(p) {
        2 + p.extra_calls + n + 1
    } else if p.tail {
        2 + p.extra_calls
    } else {
        2 + p.calls_per_level * n
    }
}

fn tail_iters(p: &Placement, n: u64) -> u64 {
    if p.error_arg {
        0
    } else if p.tail {
        n
    } else {
        0
    }
}

fn cases_for(p: &Placement, n: u64) -> Vec<Case> {
    let base = Limits::calibration();
    let mut v = vec![Case { n, limits: base.clone() }];
    let h = height(p, n);
    let mut depths = vec![3, h.saturating_sub(1), h, h + 1];
    if p.tail {
        depths.push(2 + p.extra_height + 1);
    }
    depths.sort();
    depths.dedup();
    for d in depths {
        if d >= 1 {
            let mut l = base.clone();
            l.depth = Some(d as usize);
            v.push(Case { n, limits: l });
        }
    }
    let mut recs = vec![0, n.saturating_sub(1), n, n + 1];
    recs.sort();
    recs.dedup();
    for r in recs {
        let mut l = base.clone();
        l.recursion = Some(r as usize);
        v.push(Case { n, limits: l.clone() });
        // combined with a tight depth limit
        l.depth = Some((2 + p.extra_height + 1) as usize);
        v.push(Case { n, limits: l });
    }
    v
}

impl Job for PlacementJob {
    fn len(&self) -> usize {
        self.cases.len()
    }
    fn scenario(&mut self, i: usize) -> Scenario {
        let p = &self.cat[self.idx];
        let c = &self.cases[i];
        let mut sc = Scenario::standard(&program(p, c.n), c.limits.clone());
        // the host runs main twice on one runtime: whatever the first run ended in (value or
        // violation), the second must end in the same
        sc.ops = vec![
            crate::engine::HostOp::Instantiate { slot: 0 },
            crate::engine::HostOp::Run { slot: 0, func: "main".into() },
            crate::engine::HostOp::DropAllResults,
            crate::engine::HostOp::Run { slot: 0, func: "main".into() },
            crate::engine::HostOp::DropAllResults,
            crate::engine::HostOp::DropScope { slot: 0 },
        ];
        sc.label = format!("C07 {} n={}", p.name, c.n);
        sc
    }
    fn judge(&mut self, i: usize, sc: &Scenario, r: Exec, out: &mut JobResult) {
        let p = &self.cat[self.idx];
        let c = &self.cases[i];
        let r = match r {
            Exec::Run(r) => r,
            Exec::CompileError(m) => {
                out.notes.push(format!("{}: catalogue entry does not compile: {m}", p.name));
                out.count("catalogue_compile_failures", 1);
                return;
            }
            Exec::CompilePanic(m) => {
                out.violate(violation(P, P, ("crash".into(), crash_signature(&m), m.clone()), sc));
                return;
            }
        };
        out.absorb_run(&r);
        for f in o_crash(&r) {
            out.violate(violation(P, P, f, sc));
        }
        for f in o_uncaught(&r) {
            out.violate(violation(P, P, f, sc));
        }
        for f in o_count(sc, &r) {
            out.violate(violation(P, P, f, sc));
        }
        let n = c.n;
        let depth_trips = c.limits.depth.map_or(false, |d| height(p, n) >= d as u64);
        let rec_trips = c.limits.recursion.map_or(false, |l| tail_iters(p, n) > l as u64);
        let got = r.ops.get(1).map(|o| o.outcome.clone()).unwrap_or(Outcome::Unit);
        let second = r.ops.get(3).map(|o| o.outcome.clone()).unwrap_or(Outcome::Unit);
        let kind = if p.tail { "tail" } else { "nontail" };
        let sigbase = format!("{} [{}]", p.name, kind);
        let mut expect: Vec<Outcome> = vec![];
        if depth_trips {
            expect.push(Outcome::Violation("MaximumStackDepth".into()));
        }
        if rec_trips {
            expect.push(Outcome::Violation("MaximumRecursion".into()));
        }
        if expect.is_empty() {
            if p.error_arg && n >= 1 {
                expect.push(Outcome::Error("boom".to_string()));
            } else {
                expect.push(Outcome::Value((p.value)(n)));
            }
        }
        // when both could trip the order is fixed by evaluation; for the catalogue a tail function
        // only gains depth through `extra_height` at the very end, after all iterations
        if depth_trips && rec_trips && p.tail {
            expect = vec![Outcome::Violation("MaximumRecursion".into())];
            if height(p, n) - p.extra_height >= c.limits.depth.unwrap() as u64 || inner_call_each_iteration(p) {
                // (an inner call in every iteration reaches its depth in iteration 0, before the first tail call)
                expect = vec![Outcome::Violation("MaximumStackDepth".into())];
            }
        }
        if !expect.contains(&got) {
            let what = match (&got, p.tail) {
                (Outcome::Violation(v), true) if v == "MaximumStackDepth" => "tail self-call consumed stack depth",
                (Outcome::Violation(v), false) if v == "MaximumRecursion" => "non-tail call treated as a tail call",
                (Outcome::Value(_), false) if depth_trips => "non-tail recursion did not consume stack depth",
                (Outcome::Value(_), true) if rec_trips => "tail iterations not bounded by the recursion limit",
                (Outcome::Value(_), _) if p.error_arg => "self-call with an error argument was evaluated instead of yielding the error",
                (Outcome::Value(_), _) => "wrong result",
                _ => "unexpected outcome",
            };
            out.violate(violation(
                P,
                P,
                ("tco".into(), format!("{sigbase}: {what}"), format!("n={n} limits depth={:?} recursion={:?}: got {:?}, expected one of {:?}", c.limits.depth, c.limits.recursion, got, expect)),
                sc,
            ));
        }
        if second != got {
            out.violate(violation(
                P,
                P,
                ("tco".into(), format!("{sigbase}: a second run on the same runtime ends differently from the first"), format!("n={n} limits depth={:?} recursion={:?}: first {:?}, second {:?}", c.limits.depth, c.limits.recursion, got, second)),
                sc,
            ));
        }
        // structural observations on fault-free runs (two runs of main)
        if c.limits.depth.is_none() && c.limits.recursion.is_none() {
            let h = r.ops.iter().map(|o| o.max_height).max().unwrap_or(0) as u64;
            if h != height(p, n) || r.counters.tail_iters != 2 * tail_iters(p, n) || r.counters.call_enters != 2 * calls(p, n) {
                let what = if p.tail && r.counters.tail_iters < 2 * n && !p.error_arg { "tail self-call not optimised" } else if !p.tail && r.counters.tail_iters > 0 { "non-tail call treated as a tail call" } else { "frame/call shape differs from closed form" };
                out.violate(violation(
                    P,
                    P,
                    ("tco".into(), format!("{sigbase}: {what}"),
                     format!("n={n}: deepest frame {h} (closed form {}), tail iterations {} (closed form {}), calls {} (closed form {}) over two runs",
                        height(p, n), r.counters.tail_iters, 2 * tail_iters(p, n), r.counters.call_enters, 2 * calls(p, n))),
                    sc,
                ));
            }
        }
        out.tuples.insert(format!("{}|n{}|d{:?}|r{:?}|{}", p.name, n, c.limits.depth, c.limits.recursion, got.class()));
        if p.tail && n >= 1000 && c.limits.depth.is_some() && matches!(got, Outcome::Value(_)) {
            out.probe("deep_tail_loop_under_small_depth_limit");
        }
        if !p.tail && matches!(got, Outcome::Violation(ref v) if v == "MaximumStackDepth") {
            out.probe("nontail_depth_trip");
        }
        if p.tail && matches!(got, Outcome::Violation(ref v) if v == "MaximumRecursion") {
            out.probe("tail_recursion_trip");
        }
    }
}
