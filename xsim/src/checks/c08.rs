//! C08 — depth, recursion, call and search limits are exact and transparent.
//!
//! (1) cost-algebra templates: every limit value from the smallest up to need+1 against
//!     closed-form counts; (2) corpus: every limit value against counts observed through
//!     independent observer events, plus single-threshold monotonicity for the search budget;
//! (3) host histories (run / reset / second scope on one runtime) against a counter model.

use super::{prepare_base, scenario_from_params, violation, Base};
use crate::atoms::{self, Program};
use crate::engine::{HostOp, Limits, Outcome, RunResult, Scenario, BIG};
use crate::job::{Exec, Executor, Job, JobResult, JobSpec};
use crate::oracles::{o_count, o_crash, o_transparent, o_uncaught};
use crate::prng::Prng;
use crate::sweep::{self, Kind, Needs, Point};
use serde_json::json;

const P: &str = "C08";

pub fn make(spec: &JobSpec, ex: &mut Executor, out: &mut JobResult) -> Option<Box<dyn Job>> {
    match spec.kind.as_str() {
        "template" => TemplateJob::new(spec, ex, out).map(|j| Box::new(j) as Box<dyn Job>),
        "corpus" => CorpusJob::new(spec, ex, out).map(|j| Box::new(j) as Box<dyn Job>),
        "history" => HistoryJob::new(spec, ex, out).map(|j| Box::new(j) as Box<dyn Job>),
        "single" => single(spec, ex, out),
        k => {
            out.notes.push(format!("C08: unknown job kind {k}"));
            None
        }
    }
}

pub fn generic(sc: &Scenario, base: &Base, r: &RunResult, out: &mut JobResult) {
    for f in o_crash(r) {
        out.violate(violation(P, P, f, sc));
    }
    for f in o_uncaught(r) {
        out.violate(violation(P, P, f, sc));
    }
    for f in o_count(sc, r) {
        out.violate(violation(P, P, f, sc));
    }
    for f in o_transparent(sc, &base.reference, r) {
        out.violate(violation(P, P, f, sc));
    }
}

// ------------------------------------------------------------------ templates

fn encode(p: &Program) -> String {
    p.atoms.iter().map(|a| format!("{}:{}", a.kind, a.param)).collect::<Vec<_>>().join(",")
}

fn decode(s: &str) -> Option<Program> {
    let mut v = vec![];
    for (k, part) in s.split(',').enumerate() {
        let (kind, p) = part.split_once(':')?;
        if !atoms::KINDS.contains(&kind) {
            return None;
        }
        v.push(atoms::atom(kind, k, p.parse().ok()?));
    }
    Some(atoms::program(v))
}

struct TemplateJob {
    prog: Program,
    base: Base,
    points: Vec<Scenario>,
}

/// which kinds trip for `main()` under these limits, by closed form
fn predicted(prog: &Program, l: &Limits) -> Vec<&'static str> {
    let mut s = vec![];
    if l.ud_call.map_or(false, |x| x < BIG && prog.main_calls() >= x as u64) {
        s.push("MaximumUDCall");
    }
    if l.depth.map_or(false, |x| prog.main_height() >= x as u64) {
        s.push("MaximumStackDepth");
    }
    if l.recursion.map_or(false, |x| prog.max_tail() > x as u64) {
        s.push("MaximumRecursion");
    }
    if l.search.map_or(false, |x| prog.max_search() > x as u64) {
        s.push("MaximumSearch");
    }
    s
}

fn thin(lo: u64, hi: u64, max: usize, rng: &mut Prng) -> Vec<u64> {
    let n = hi - lo + 1;
    if n as usize <= max {
        return (lo..=hi).collect();
    }
    let mut v = vec![lo, lo + 1, hi - 1, hi];
    while v.len() < max {
        v.push(lo + rng.below(n));
    }
    v.sort();
    v.dedup();
    v
}

impl TemplateJob {
    fn from_program(prog: Program, seed: u64, max_points: usize, ex: &mut Executor, out: &mut JobResult) -> Option<Self> {
        let mut sc = Scenario::standard(&prog.text, Limits::calibration());
        sc.perms[4] = Some(true); // regex atoms
        sc.label = format!("C08 tpl {}", encode(&prog));
        sc.seed = seed;
        let base = prepare_base(P, P, &sc, ex, out)?;
        // the closed forms must describe the fault-free run
        let r = &base.reference;
        let h = r.ops.iter().map(|o| o.max_height).max().unwrap_or(0) as u64;
        let max_tail = sweep::needs(&r.log).tail as u64;
        let got = r.main_outcome().clone();
        if got != Outcome::Value(prog.value()) || r.counters.call_enters != prog.main_calls() || h != prog.main_height() || max_tail != prog.max_tail() {
            out.violate(violation(
                P,
                P,
                ("closed-form".into(), format!("fault-free run differs from closed form ({})", prog.atoms.iter().map(|a| a.kind).collect::<Vec<_>>().join("+")),
                 format!("value {:?} (closed form {}), calls {} ({}), deepest frame {} ({}), longest tail run {} ({})",
                    got, prog.value(), r.counters.call_enters, prog.main_calls(), h, prog.main_height(), max_tail, prog.max_tail())),
                &base.sc,
            ));
            return None;
        }
        let mut rng = Prng::new(seed ^ 0x5eed);
        let mut points = vec![];
        let mk = |f: &dyn Fn(&mut Limits)| {
            let mut s = base.sc.clone();
            s.env.record = false;
            f(&mut s.limits);
            s
        };
        for v in thin(1, prog.main_calls() + 1, max_points, &mut rng) {
            points.push(mk(&|l| l.ud_call = Some(v as usize)));
        }
        for v in thin(1, prog.main_height() + 1, max_points, &mut rng) {
            points.push(mk(&|l| l.depth = Some(v as usize)));
        }
        for v in thin(0, prog.max_tail() + 1, max_points, &mut rng) {
            points.push(mk(&|l| l.recursion = Some(v as usize)));
        }
        for v in thin(0, prog.max_search() + 1, max_points, &mut rng) {
            points.push(mk(&|l| l.search = Some(v as usize)));
        }
        // combined configurations around the thresholds
        for _ in 0..8 {
            let c = (prog.main_calls() as i64 + rng.range(-1, 2)).max(1) as usize;
            let d = (prog.main_height() as i64 + rng.range(-1, 2)).max(1) as usize;
            let t = (prog.max_tail() as i64 + rng.range(-1, 1)).max(0) as usize;
            let s = (prog.max_search() as i64 + rng.range(-1, 1)).max(0) as usize;
            let pick = rng.below(16);
            points.push(mk(&|l| {
                if pick & 1 != 0 {
                    l.ud_call = Some(c);
                }
                if pick & 2 != 0 {
                    l.depth = Some(d);
                }
                if pick & 4 != 0 {
                    l.recursion = Some(t);
                }
                if pick & 8 != 0 {
                    l.search = Some(s);
                }
            }));
        }
        if out.samples.len() < 2 {
            out.samples.push(json!({"kind": "template", "atoms": encode(&prog), "program": prog.text, "closed_form": {
                "calls": prog.main_calls(), "deepest_frame": prog.main_height(), "longest_tail_run": prog.max_tail(), "max_examined": prog.max_search(), "value": prog.value()},
                "limit_points": points.len()}));
        }
        Some(TemplateJob { prog, base, points })
    }

    fn new(spec: &JobSpec, ex: &mut Executor, out: &mut JobResult) -> Option<Self> {
        let mut rng = Prng::new(spec.seed);
        let max_param = spec.params.get("max_param").and_then(|v| v.as_u64()).unwrap_or(12);
        let max_atoms = spec.params.get("max_atoms").and_then(|v| v.as_u64()).unwrap_or(4) as usize;
        let max_points = spec.params.get("max_points").and_then(|v| v.as_u64()).unwrap_or(64) as usize;
        let prog = match spec.params.get("atoms").and_then(|v| v.as_str()) {
            Some(a) => decode(a)?,
            None => atoms::random_program(&mut rng, max_atoms, max_param),
        };
        Self::from_program(prog, spec.seed, max_points, ex, out)
    }
}

fn judge_template(prog: &Program, base: &Base, sc: &Scenario, r: &RunResult, out: &mut JobResult) {
    generic(sc, base, r, out);
    let pred = predicted(prog, &sc.limits);
    let got = r.main_outcome().clone();
    let mut ok = if pred.is_empty() {
        got == Outcome::Value(prog.value())
    } else {
        matches!(&got, Outcome::Violation(v) if pred.contains(&v.as_str()))
    };
    // two budgets tripping on the same pull: when another violation is delivered as the element
    // right after the last permitted one, the consumer's own budget is drawn for that pull too and
    // may be the one reported (examined == L exactly); both are correct outcomes
    if !ok && !pred.is_empty() && sc.limits.search.map_or(false, |l| prog.max_search() >= l as u64) {
        ok = matches!(&got, Outcome::Violation(v) if v == "MaximumSearch");
    }
    if !ok {
        let which = match (&got, pred.first()) {
            (Outcome::Value(_), Some(k)) => format!("{k} not raised at its threshold"),
            (Outcome::Violation(v), _) => format!("{v} raised below its threshold"),
            _ => "wrong result".to_string(),
        };
        out.violate(violation(
            P,
            P,
            ("exact".into(), format!("template: {which}"),
             format!("limits {} ; closed form: calls {} deepest frame {} tail run {} examined {} ; predicted {:?}, got {:?}",
                serde_json::to_string(&sc.limits).unwrap_or_default(), prog.main_calls(), prog.main_height(), prog.max_tail(), prog.max_search(), pred, got)),
            sc,
        ));
    }
    let l = &sc.limits;
    let dims = [l.ud_call.map_or(false, |x| x < BIG), l.depth.is_some(), l.recursion.is_some(), l.search.is_some()];
    out.tuples.insert(format!("tpl:{}|{:?}|{}", encode(prog), dims, got.class()));
    if matches!(&got, Outcome::Violation(v) if v == "MaximumSearch") {
        out.count("search_trips", 1);
        out.probe("search_trip_at_closed_form_threshold");
    }
    if matches!(&got, Outcome::Violation(v) if v == "MaximumUDCall") {
        out.probe("call_trip_at_closed_form_threshold");
    }
    if matches!(&got, Outcome::Violation(v) if v == "MaximumStackDepth") {
        out.probe("depth_trip_at_closed_form_threshold");
    }
    if matches!(&got, Outcome::Violation(v) if v == "MaximumRecursion") {
        out.probe("recursion_trip_at_closed_form_threshold");
    }
}

impl Job for TemplateJob {
    fn len(&self) -> usize {
        self.points.len()
    }
    fn scenario(&mut self, i: usize) -> Scenario {
        self.points[i].clone()
    }
    fn judge(&mut self, _i: usize, sc: &Scenario, r: Exec, out: &mut JobResult) {
        let Exec::Run(r) = r else { return };
        out.absorb_run(&r);
        judge_template(&self.prog, &self.base, sc, &r, out);
    }
}

// ------------------------------------------------------------------ corpus

struct CorpusJob {
    base: Base,
    needs: Needs,
    points: Vec<Point>,
    search_first_pass: Option<usize>,
}

impl CorpusJob {
    fn new(spec: &JobSpec, ex: &mut Executor, out: &mut JobResult) -> Option<Self> {
        let sc = scenario_from_params(spec)?;
        let base = prepare_base(P, P, &sc, ex, out)?;
        let max = spec.params.get("max_points").and_then(|v| v.as_u64()).unwrap_or(48) as usize;
        let (points, needs) = sweep::points(&base, &[Kind::Calls, Kind::Depth, Kind::Recursion, Kind::Search], max, spec.seed);
        if out.samples.len() < 1 {
            out.samples.push(json!({"kind": "corpus", "program": base.sc.label, "observed": {"calls": needs.calls, "deepest_frame": needs.height, "longest_tail_run": needs.tail},
                "limit_points": points.len()}));
        }
        Some(CorpusJob { base, needs, points, search_first_pass: None })
    }
}

fn judge_corpus(base: &Base, nd: &Needs, kind: &Kind, value: usize, first_pass: &mut Option<usize>, sc: &Scenario, r: &RunResult, out: &mut JobResult) {
    generic(sc, base, r, out);
    let got = r.main_outcome().clone();
    let (should, name) = match kind {
        Kind::Calls => (nd.calls >= value, "MaximumUDCall"),
        Kind::Depth => (nd.height >= value, "MaximumStackDepth"),
        Kind::Recursion => (nd.tail > value, "MaximumRecursion"),
        _ => (false, "MaximumSearch"),
    };
    let is = matches!(&got, Outcome::Violation(v) if v == name);
    if *kind != Kind::Search {
        if should != is {
            out.violate(violation(
                P,
                P,
                ("exact".into(), format!("corpus: {name} {} its threshold", if should { "not raised at" } else { "raised below" }),
                 format!("{}={value}; the unlimited run makes {} calls, deepest frame {}, longest tail run {}; got {:?}", kind.name(), nd.calls, nd.height, nd.tail, got)),
                sc,
            ));
        }
    } else {
        if is {
            out.count("search_trips", 1);
            if let Some(p) = *first_pass {
                if value > p {
                    out.violate(violation(
                        P,
                        P,
                        ("monotone".into(), "search limit: raising the limit turned a pass into a failure".into(), format!("search={p} passes, search={value} fails")),
                        sc,
                    ));
                }
            }
        } else if first_pass.is_none() && !matches!(got, Outcome::Violation(_)) {
            *first_pass = Some(value);
        }
    }
    out.tuples.insert(format!("{}|{}|{}|{}", base.sc.label, kind.name(), if should || is { "trip" } else { "pass" }, got.class()));
    if is {
        out.probe(&format!("corpus_{}_trip", kind.name()));
    }
}

impl Job for CorpusJob {
    fn len(&self) -> usize {
        self.points.len()
    }
    fn scenario(&mut self, i: usize) -> Scenario {
        self.points[i].scenario.clone()
    }
    fn judge(&mut self, i: usize, sc: &Scenario, r: Exec, out: &mut JobResult) {
        let Exec::Run(r) = r else { return };
        out.absorb_run(&r);
        let p = &self.points[i];
        judge_corpus(&self.base, &self.needs, &p.kind, p.value, &mut self.search_first_pass, sc, &r, out);
    }
}

// ------------------------------------------------------------------ histories

struct HistoryJob {
    prog: Program,
    scenarios: Vec<Scenario>,
}

fn gen_history(rng: &mut Prng, prog: &Program) -> Vec<HostOp> {
    let mut ops = vec![HostOp::Instantiate { slot: 0 }];
    let mut two = false;
    let n = 4 + rng.below(12) as usize;
    for _ in 0..n {
        match rng.below(13) {
            // re-arming the (unset) time limit is not a reset of anything else
            12 => ops.push(HostOp::ResetTimeout),
            0..=6 => {
                let slot = if two && rng.chance(1, 3) { 1 } else { 0 };
                let f = if rng.chance(1, 5) { "main".to_string() } else { rng.pick(&prog.exports).clone() };
                ops.push(HostOp::Run { slot, func: f });
            }
            7 | 8 => ops.push(HostOp::ResetCalls),
            9 => ops.push(HostOp::ResetCallLimit),
            10 => {
                if !two {
                    ops.push(HostOp::Instantiate { slot: 1 });
                    two = true;
                }
            }
            _ => ops.push(HostOp::DropAllResults),
        }
    }
    ops
}

impl HistoryJob {
    fn new(spec: &JobSpec, _ex: &mut Executor, out: &mut JobResult) -> Option<Self> {
        let mut rng = Prng::new(spec.seed);
        let count = spec.params.get("count").and_then(|v| v.as_u64()).unwrap_or(20) as usize;
        let prog = match spec.params.get("atoms").and_then(|v| v.as_str()) {
            Some(a) => decode(a)?,
            None => atoms::random_program(&mut rng, 4, 8),
        };
        let mut scenarios = vec![];
        for k in 0..count {
            let mut sc = Scenario::standard(&prog.text, Limits::calibration());
            sc.perms[4] = Some(true);
            sc.seed = spec.seed.wrapping_add(k as u64);
            sc.ops = gen_history(&mut rng, &prog);
            let total: u64 = prog.main_calls() * 2 + 3;
            sc.limits.ud_call = Some(1 + rng.below(total) as usize);
            if rng.chance(1, 3) {
                sc.limits.depth = Some((prog.main_height() as i64 + rng.range(-2, 1)).max(1) as usize);
            }
            if rng.chance(1, 3) {
                sc.limits.recursion = Some((prog.max_tail() as i64 + rng.range(-2, 1)).max(0) as usize);
            }
            if rng.chance(1, 3) {
                sc.limits.search = Some((prog.max_search() as i64 + rng.range(-2, 1)).max(0) as usize);
            }
            sc.label = format!("C08 hist {}", encode(&prog));
            scenarios.push(sc);
        }
        if out.samples.len() < 1 {
            if let Some(s) = scenarios.first() {
                out.samples.push(json!({"kind": "history", "atoms": encode(&prog), "limits": s.limits, "ops": s.ops}));
            }
        }
        Some(HistoryJob { prog, scenarios })
    }
}

/// counter model: budget is cumulative since the last reset across ops and scopes; per-call
/// budgets (depth, recursion, search) never carry over
fn judge_history(prog: &Program, sc: &Scenario, r: &RunResult, out: &mut JobResult) {
    for f in o_crash(r) {
        out.violate(violation(P, P, f, sc));
    }
    for f in o_uncaught(r) {
        out.violate(violation(P, P, f, sc));
    }
    for f in o_count(sc, r) {
        out.violate(violation(P, P, f, sc));
    }
    let l = &sc.limits;
    let lim = l.ud_call.unwrap_or(BIG) as u64;
    let mut c: u64 = 0;
    for (i, op) in sc.ops.iter().enumerate() {
        let Some(res) = r.ops.get(i) else { break };
        match op {
            HostOp::ResetCalls | HostOp::ResetCallLimit => {
                c = 0;
                if res.ud_calls != 0 {
                    out.violate(violation(P, P, ("history".into(), "reset does not zero the call counter".into(), format!("host op {i}: counter reads {} after reset", res.ud_calls)), sc));
                }
                out.probe("reset_in_history");
            }
            HostOp::Run { func, .. } => {
                let (k, h, t, s, val) = if func == "main" {
                    (prog.main_calls(), prog.main_height(), prog.max_tail(), prog.max_search(), prog.value())
                } else {
                    let idx: usize = func.trim_start_matches("v_e").parse().unwrap_or(0);
                    let a = &prog.atoms[idx];
                    (prog.export_calls(idx), prog.export_height(idx), a.tail, a.searches.iter().cloned().max().unwrap_or(0), a.value.to_string())
                };
                let mut pred = vec![];
                if c + k >= lim {
                    pred.push("MaximumUDCall");
                }
                if l.depth.map_or(false, |x| h >= x as u64) {
                    pred.push("MaximumStackDepth");
                }
                if l.recursion.map_or(false, |x| t > x as u64) {
                    pred.push("MaximumRecursion");
                }
                if l.search.map_or(false, |x| s > x as u64) {
                    pred.push("MaximumSearch");
                }
                let got = &res.outcome;
                let mut ok = if pred.is_empty() {
                    matches!(got, Outcome::Value(v) if *v == val)
                } else {
                    matches!(got, Outcome::Violation(v) if pred.contains(&v.as_str()))
                };
                // two budgets tripping on the same pull (see judge_template)
                if !ok && !pred.is_empty() && l.search.map_or(false, |x| s >= x as u64) {
                    ok = matches!(got, Outcome::Violation(v) if v == "MaximumSearch");
                }
                if !ok {
                    let what = match got {
                        Outcome::Value(_) if pred.contains(&"MaximumUDCall") => "call budget not cumulative across host calls",
                        Outcome::Violation(v) if v == "MaximumUDCall" => "call budget exhausted too early in a history",
                        Outcome::Violation(_) => "per-call budget carried over or misjudged in a history",
                        _ => "wrong result in a history",
                    };
                    out.violate(violation(
                        P,
                        P,
                        ("history".into(), what.to_string(),
                         format!("host op {i} Run({func}): {c} calls since reset, op costs {k}, limits {}; predicted {:?}, got {:?}", serde_json::to_string(l).unwrap_or_default(), pred, got)),
                        sc,
                    ));
                    return;
                }
                match got {
                    Outcome::Value(_) => c += k,
                    Outcome::Violation(v) if v == "MaximumUDCall" => {
                        // the counter reached the limit; natives may poll a refused callback again, so
                        // only "at least the limit" is asserted (the statement does not say it stops)
                        c = res.ud_calls as u64;
                        if c < lim {
                            out.violate(violation(P, P, ("history".into(), "MaximumUDCall raised before the counter reached the limit".into(), format!("host op {i}: counter reads {c} after MaximumUDCall with limit {lim}")), sc));
                        }
                        out.probe("call_budget_tripped_in_history");
                    }
                    _ => {
                        // stopped somewhere inside: take the observed position (already cross-checked by o_count)
                        c = res.ud_calls as u64;
                    }
                }
                if res.ud_calls as u64 != c {
                    out.violate(violation(P, P, ("history".into(), "call counter differs from the cost model".into(), format!("host op {i}: counter reads {}, model {c}", res.ud_calls)), sc));
                    return;
                }
            }
            HostOp::Instantiate { .. } => {
                if !matches!(res.outcome, Outcome::Unit) {
                    out.violate(violation(P, P, ("history".into(), "instantiation of a call-free program failed".into(), format!("host op {i}: {:?}", res.outcome)), sc));
                    return;
                }
            }
            _ => {}
        }
    }
    let viol = r.ops.iter().filter(|o| o.outcome.violation_kind().is_some()).count();
    out.tuples.insert(format!("hist:{}|ops{}|viol{}", encode(prog), sc.ops.len(), viol.min(4)));
    if sc.ops.iter().filter(|o| matches!(o, HostOp::Instantiate { .. })).count() > 1 {
        out.probe("second_scope_shares_budget");
    }
}

impl Job for HistoryJob {
    fn len(&self) -> usize {
        self.scenarios.len()
    }
    fn scenario(&mut self, i: usize) -> Scenario {
        self.scenarios[i].clone()
    }
    fn judge(&mut self, _i: usize, sc: &Scenario, r: Exec, out: &mut JobResult) {
        let Exec::Run(r) = r else { return };
        out.absorb_run(&r);
        judge_history(&self.prog, sc, &r, out);
    }
}

// ------------------------------------------------------------------ single (replay)

struct SingleJob {
    sc: Scenario,
    prog: Option<Program>,
    base: Option<Base>,
    needs: Needs,
}

fn single(spec: &JobSpec, ex: &mut Executor, out: &mut JobResult) -> Option<Box<dyn Job>> {
    let sc: Scenario = scenario_from_params(spec)?;
    let mut it = sc.label.split_whitespace();
    let (a, b, c) = (it.next().unwrap_or(""), it.next().unwrap_or(""), it.next().unwrap_or(""));
    if a == "C08" && b == "hist" {
        return Some(Box::new(SingleJob { prog: decode(c), sc, base: None, needs: Needs::default() }));
    }
    let base = prepare_base(P, P, &sc, ex, out)?;
    let needs = sweep::needs(&base.reference.log);
    let prog = if a == "C08" && b == "tpl" { decode(c) } else { None };
    Some(Box::new(SingleJob { sc, prog, base: Some(base), needs }))
}

impl Job for SingleJob {
    fn len(&self) -> usize {
        1
    }
    fn scenario(&mut self, _i: usize) -> Scenario {
        self.sc.clone()
    }
    fn judge(&mut self, _i: usize, sc: &Scenario, r: Exec, out: &mut JobResult) {
        let Exec::Run(r) = r else { return };
        out.absorb_run(&r);
        match (&self.prog, &self.base) {
            (Some(p), None) => judge_history(p, sc, &r, out),
            (Some(p), Some(b)) => judge_template(p, b, sc, &r, out),
            (None, Some(b)) => {
                // corpus point: recover kind/value from the limits
                let l = &sc.limits;
                let (kind, value) = if let Some(v) = l.depth {
                    (Kind::Depth, v)
                } else if let Some(v) = l.recursion {
                    (Kind::Recursion, v)
                } else if let Some(v) = l.search {
                    (Kind::Search, v)
                } else {
                    (Kind::Calls, l.ud_call.unwrap_or(BIG))
                };
                let mut fp = None;
                judge_corpus(b, &self.needs, &kind, value, &mut fp, sc, &r, out);
            }
            _ => {}
        }
    }
}
