//! C17 — mappings and sets are finite maps under any consistent hash.
//!
//! The KV-store recipe minus crashes: one generated program per operation history; every
//! version is observed again after all later updates (persistence); the program prints its
//! observations and the harness compares them with an association-list model over the
//! equivalence classes of the user equality. Each history runs under several seeded hasher
//! layouts (iteration order of the internal tables), which must all agree with the model.
//! Fault dimension: call budget and size limit tripping inside hash/eq callbacks.

use super::{prepare_base, violation};
use crate::engine::{Limits, Outcome, RunResult, Scenario};
use crate::job::{Exec, Executor, Job, JobResult, JobSpec};
use crate::oracles::{crash_signature, o_balance, o_crash, o_uncaught};
use crate::prng::Prng;
use crate::sweep::{self, Kind};
use serde_json::json;

const P: &str = "C17";
const UNIVERSE: i64 = 12;

#[derive(Clone, Debug)]
struct Model {
    /// (class, value) in insertion order of the class
    entries: Vec<(i64, i64)>,
}

impl Model {
    fn get(&self, c: i64) -> Option<i64> {
        self.entries.iter().find(|e| e.0 == c).map(|e| e.1)
    }
    fn set(&mut self, c: i64, v: i64) {
        if let Some(e) = self.entries.iter_mut().find(|e| e.0 == c) {
            e.1 = v;
        } else {
            self.entries.push((c, v));
        }
    }
    fn remove(&mut self, c: i64) {
        self.entries.retain(|e| e.0 != c);
    }
    fn len(&self) -> usize {
        self.entries.len()
    }
}

pub struct History {
    pub text: String,
    pub expected: String,
    pub e: i64,
    pub m: i64,
    pub n_ops: usize,
    pub kind: &'static str,
}

fn keys_lit(ks: &[i64]) -> String {
    format!("[{}]", ks.iter().map(|k| k.to_string()).collect::<Vec<_>>().join(", "))
}

fn rand_keys(rng: &mut Prng, n: usize) -> Vec<i64> {
    (0..n).map(|_| rng.below(UNIVERSE as u64) as i64).collect()
}

/// hash/eq parameters: classes are k % e, buckets (k % e) % m
fn params(rng: &mut Prng) -> (i64, i64) {
    let e = *rng.pick(&[1i64, 2, 3, 5, 7, 12]);
    let m = *rng.pick(&[1i64, 2, 3, 7, 1000]);
    (e, m)
}

pub fn mapping_history(rng: &mut Prng, max_ops: usize, light: bool) -> History {
    let (e, m) = params(rng);
    let native = rng.chance(1, 6);
    let cls = |k: i64| if native { k } else { k % e };
    let n_ops = 1 + rng.below(max_ops as u64) as usize;
    let mut text = format!("let v_ballast = \"{}\";\n", "b".repeat(1400));
    if native {
        text.push_str("let v_m0 = cast<Mapping<int, int>>(mapping<int>());\n");
    } else {
        text.push_str(&format!(
            "fn v_h(v_k: int)->int{{ (v_k % {e}) % {m} }}\nfn v_e(v_a: int, v_b: int)->bool{{ v_a % {e} == v_b % {e} }}\nlet v_m0 = cast<Mapping<int, int>>(mapping(v_h, v_e));\n"
        ));
    }
    let mut versions: Vec<Model> = vec![Model { entries: vec![] }];
    let mut extra_expect: Vec<(String, String)> = vec![];
    let mut next_val = 100i64;
    for i in 1..=n_ops {
        // any earlier version may be the base: persistence
        let base = if rng.chance(1, 4) { rng.below(i as u64) as usize } else { i - 1 };
        let mut model = versions[base].clone();
        let k = rng.below(UNIVERSE as u64) as i64;
        next_val += 1;
        let v = next_val;
        let expr = match rng.below(13) {
            0..=3 => {
                model.set(cls(k), v);
                format!("v_m{base}.set({k}, {v})")
            }
            4 => {
                if model.get(cls(k)).is_none() {
                    model.set(cls(k), v);
                }
                format!("v_m{base}.set_default({k}, {v})")
            }
            5 => {
                model.remove(cls(k));
                format!("v_m{base}.discard({k})")
            }
            6 => {
                // pop: error when absent; observe the error and keep the base version
                if model.get(cls(k)).is_some() {
                    model.remove(cls(k));
                    format!("v_m{base}.pop({k})")
                } else {
                    extra_expect.push((format!("is_error(v_m{base}.pop({k}))"), "true".to_string()));
                    format!("v_m{base}.discard({k})")
                }
            }
            7 => {
                let nk = 1 + rng.below(5) as usize;
                let ks = rand_keys(rng, nk);
                let mut pairs = vec![];
                for (j, kk) in ks.iter().enumerate() {
                    let vv = v * 10 + j as i64;
                    model.set(cls(*kk), vv);
                    pairs.push(format!("({kk}, {vv})"));
                }
                format!("v_m{base}.update([{}].to_generator())", pairs.join(", "))
            }
            8 => {
                let other = rng.below(i as u64) as usize;
                let o = versions[other].clone();
                for (c, vv) in &o.entries {
                    model.set(*c, *vv);
                }
                format!("v_m{base}.update(v_m{other})")
            }
            9 => {
                let nk = 1 + rng.below(6) as usize;
                let ks = rand_keys(rng, nk);
                for kk in &ks {
                    let c = cls(*kk);
                    match model.get(c) {
                        Some(old) => model.set(c, old + 1),
                        None => model.set(c, 1000 + c),
                    }
                }
                let on_vacant = if native { "(v_k: int)->{1000 + v_k}".to_string() } else { format!("(v_k: int)->{{1000 + v_k % {e}}}") };
                format!("v_m{base}.update_from_keys({}, {on_vacant}, (v_k: int, v_v: int)->{{v_v + 1}})", keys_lit(&ks))
            }
            10 => {
                let nk = 1 + rng.below(6) as usize;
                let ks = rand_keys(rng, nk);
                // counters only make sense on a fresh mapping of ints; emulate on the model
                for kk in &ks {
                    let c = cls(*kk);
                    match model.get(c) {
                        Some(old) => model.set(c, old + 1),
                        None => model.set(c, 1),
                    }
                }
                format!("v_m{base}.update_counter({}.to_generator())", keys_lit(&ks))
            }
            11 => {
                model.entries.clear();
                format!("cast<Mapping<int, int>>(v_m{base}.clear())")
            }
            _ => {
                for en in model.entries.iter_mut() {
                    en.1 += 7;
                }
                format!("v_m{base}.map_values((v_v: int)->{{v_v + 7}})")
            }
        };
        text.push_str(&format!("let v_m{i} = {expr};\n"));
        versions.push(model);
    }
    // observations, made after all updates
    let mut body = vec![];
    let mut expected = String::new();
    for (i, model) in versions.iter().enumerate() {
        body.push(format!("display(v_m{i}.len())"));
        expected.push_str(&format!("{}\n", model.len()));
        for k in 0..UNIVERSE {
            body.push(format!("display(v_m{i}.lookup({k}).or(0 - 1))"));
            expected.push_str(&format!("{}\n", model.get(cls(k)).unwrap_or(-1)));
        }
        if !light {
            body.push(format!("display(v_m{i}.values().sum(0))"));
            expected.push_str(&format!("{}\n", model.entries.iter().map(|e| e.1).sum::<i64>()));
            body.push(format!("display(v_m{i}.to_generator().to_array().len())"));
            expected.push_str(&format!("{}\n", model.len()));
            let class_expr = if native { "v_k".to_string() } else { format!("v_k % {e}") };
            body.push(format!("display(v_m{i}.keys().to_array().map((v_k: int)->{{{class_expr}}}).sort().to_str())"));
            let mut cs: Vec<i64> = model.entries.iter().map(|e| e.0).collect();
            cs.sort();
            expected.push_str(&format!("[{}]\n", cs.iter().map(|c| c.to_string()).collect::<Vec<_>>().join(", ")));
        }
        let probe = (i as i64 * 5) % UNIVERSE;
        body.push(format!("display(v_m{i}.contains({probe}))"));
        expected.push_str(&format!("{}\n", model.get(cls(probe)).is_some()));
        body.push(format!("display(v_m{i}.get({probe}, 0 - 2))"));
        expected.push_str(&format!("{}\n", model.get(cls(probe)).unwrap_or(-2)));
        body.push(format!("display(is_error(v_m{i}.get({probe})))"));
        expected.push_str(&format!("{}\n", model.get(cls(probe)).is_none()));
    }
    // equality between a few version pairs
    for _ in 0..(if light { 0 } else { 3.min(versions.len()) }) {
        let a = rng.below(versions.len() as u64) as usize;
        let b = rng.below(versions.len() as u64) as usize;
        let (ma, mb) = (&versions[a], &versions[b]);
        let eq = ma.len() == mb.len() && ma.entries.iter().all(|(c, v)| mb.get(*c) == Some(*v));
        body.push(format!("display(v_m{a} == v_m{b})"));
        expected.push_str(&format!("{eq}\n"));
    }
    for (ex, want) in extra_expect {
        body.push(format!("display({ex})"));
        expected.push_str(&format!("{want}\n"));
    }
    // display returns its argument; chain the calls as statements of a tuple-free block
    text.push_str("fn main()->bool{\n");
    for (j, b) in body.iter().enumerate() {
        text.push_str(&format!("    let v_o{j} = {b};\n"));
    }
    text.push_str("    true\n}\n");
    History { text, expected, e, m, n_ops, kind: if native { "mapping-native" } else { "mapping" } }
}

pub fn set_history(rng: &mut Prng, max_ops: usize, light: bool) -> History {
    let (e, m) = params(rng);
    let native = rng.chance(1, 6);
    let cls = |k: i64| if native { k } else { k % e };
    let n_ops = 1 + rng.below(max_ops as u64) as usize;
    let mut text = format!("let v_ballast = \"{}\";\n", "b".repeat(1400));
    if native {
        text.push_str("let v_s0 = set<int>();\n");
    } else {
        text.push_str(&format!(
            "fn v_h(v_k: int)->int{{ (v_k % {e}) % {m} }}\nfn v_e(v_a: int, v_b: int)->bool{{ v_a % {e} == v_b % {e} }}\nlet v_s0 = set(v_h, v_e);\n"
        ));
    }
    let mut versions: Vec<Vec<i64>> = vec![vec![]];
    let mut extra: Vec<(String, String)> = vec![];
    let add = |s: &mut Vec<i64>, c: i64| {
        if !s.contains(&c) {
            s.push(c)
        }
    };
    for i in 1..=n_ops {
        let base = if rng.chance(1, 4) { rng.below(i as u64) as usize } else { i - 1 };
        let mut model = versions[base].clone();
        let k = rng.below(UNIVERSE as u64) as i64;
        let expr = match rng.below(12) {
            0..=2 => {
                add(&mut model, cls(k));
                format!("v_s{base}.add({k})")
            }
            3 => {
                let nk = 1 + rng.below(6) as usize;
                let ks = rand_keys(rng, nk);
                for kk in &ks {
                    add(&mut model, cls(*kk));
                }
                format!("v_s{base}.update({})", keys_lit(&ks))
            }
            4 => {
                let nk = 1 + rng.below(6) as usize;
                let ks = rand_keys(rng, nk);
                for kk in &ks {
                    add(&mut model, cls(*kk));
                }
                format!("v_s{base}.update({}.to_generator())", keys_lit(&ks))
            }
            5 => {
                model.retain(|c| *c != cls(k));
                format!("v_s{base}.discard({k})")
            }
            6 => {
                if model.contains(&cls(k)) {
                    model.retain(|c| *c != cls(k));
                    format!("v_s{base}.remove({k})")
                } else {
                    extra.push((format!("is_error(v_s{base}.remove({k}))"), "true".to_string()));
                    format!("v_s{base}.discard({k})")
                }
            }
            7 => {
                model.clear();
                format!("v_s{base}.clear()")
            }
            8 => {
                let o = rng.below(i as u64) as usize;
                for c in versions[o].clone() {
                    add(&mut model, c);
                }
                format!("(v_s{base} | v_s{o})")
            }
            9 => {
                let o = rng.below(i as u64) as usize;
                let other = versions[o].clone();
                model.retain(|c| other.contains(c));
                format!("(v_s{base} & v_s{o})")
            }
            10 => {
                let o = rng.below(i as u64) as usize;
                let other = versions[o].clone();
                model.retain(|c| !other.contains(c));
                format!("(v_s{base} - v_s{o})")
            }
            _ => {
                let o = rng.below(i as u64) as usize;
                let other = versions[o].clone();
                let mut x: Vec<i64> = model.iter().filter(|c| !other.contains(c)).cloned().collect();
                x.extend(other.iter().filter(|c| !model.contains(c)).cloned());
                model = x;
                format!("(v_s{base} ^ v_s{o})")
            }
        };
        text.push_str(&format!("let v_s{i} = {expr};\n"));
        versions.push(model);
    }
    let mut body = vec![];
    let mut expected = String::new();
    for (i, model) in versions.iter().enumerate() {
        body.push(format!("display(v_s{i}.len())"));
        expected.push_str(&format!("{}\n", model.len()));
        for k in 0..UNIVERSE {
            body.push(format!("display(v_s{i}.contains({k}))"));
            expected.push_str(&format!("{}\n", model.contains(&cls(k))));
        }
        if !light {
            let class_expr = if native { "v_k".to_string() } else { format!("v_k % {e}") };
            body.push(format!("display(v_s{i}.to_array().map((v_k: int)->{{{class_expr}}}).sort().to_str())"));
            let mut cs = model.clone();
            cs.sort();
            expected.push_str(&format!("[{}]\n", cs.iter().map(|c| c.to_string()).collect::<Vec<_>>().join(", ")));
            body.push(format!("display(v_s{i}.to_generator().to_array().len())"));
            expected.push_str(&format!("{}\n", model.len()));
        }
    }
    for _ in 0..(if light { 0 } else { 4.min(versions.len()) }) {
        let a = rng.below(versions.len() as u64) as usize;
        let b = rng.below(versions.len() as u64) as usize;
        let (sa, sb) = (&versions[a], &versions[b]);
        let sub = sa.iter().all(|c| sb.contains(c));
        let sup = sb.iter().all(|c| sa.contains(c));
        let rels = [
            ("==", sub && sup),
            ("<=", sub),
            ("<", sub && !sup),
            (">=", sup),
            (">", sup && !sub),
        ];
        for (op, want) in rels {
            body.push(format!("display(v_s{a} {op} v_s{b})"));
            expected.push_str(&format!("{want}\n"));
        }
        body.push(format!("display(v_s{a}.is_disjoint(v_s{b}))"));
        expected.push_str(&format!("{}\n", !sa.iter().any(|c| sb.contains(c))));
    }
    for (ex, want) in extra {
        body.push(format!("display({ex})"));
        expected.push_str(&format!("{want}\n"));
    }
    text.push_str("fn main()->bool{\n");
    for (j, b) in body.iter().enumerate() {
        text.push_str(&format!("    let v_o{j} = {b};\n"));
    }
    text.push_str("    true\n}\n");
    History { text, expected, e, m, n_ops, kind: if native { "set-native" } else { "set" } }
}

/// three further history families: counting generators over colliding keys, set algebra between sets built
/// with *different* hash functions (the left operand possibly empty), and collections used as keys of
/// collections (equal inner mappings built in different insertion orders over a colliding hash)
pub fn special_history(rng: &mut Prng) -> History {
    let e = *rng.pick(&[2i64, 3, 5, 12]);
    let m = *rng.pick(&[1i64, 2, 3, 7]);
    let mut text = format!("let v_ballast = \"{}\";\n", "b".repeat(1400));
    let mut body: Vec<String> = vec![];
    let mut expected = String::new();
    let kind: &'static str;
    match rng.below(3) {
        0 => {
            kind = "counting";
            text.push_str(&format!("fn v_h(v_k: int)->int{{ (v_k % {e}) % {m} }}\nfn v_e(v_a: int, v_b: int)->bool{{ v_a % {e} == v_b % {e} }}\n"));
            let n = 1 + rng.below(14) as usize;
            let keys: Vec<i64> = (0..n).map(|_| rng.below(UNIVERSE as u64) as i64).collect();
            text.push_str(&format!("let v_keys = {};\n", keys_lit(&keys)));
            let mut counts: std::collections::BTreeMap<i64, i64> = Default::default();
            let mut running = vec![];
            let mut firsts = vec![];
            for k in &keys {
                let c = counts.entry(k % e).or_insert(0);
                *c += 1;
                running.push(format!("({}, {})", k % e, *c));
                if *c == 1 {
                    firsts.push((k % e).to_string());
                }
            }
            body.push(format!("display(v_keys.to_generator().with_count(v_h, v_e).map((v_p: (int, int))->{{ (v_p::item0 % {e}, v_p::item1) }}).to_array().to_str())"));
            expected.push_str(&format!("[{}]\n", running.join(", ")));
            body.push(format!("display(v_keys.to_generator().distinct(v_h, v_e).map((v_k: int)->{{ v_k % {e} }}).to_array().to_str())"));
            expected.push_str(&format!("[{}]\n", firsts.join(", ")));
            body.push("display(mapping(v_h, v_e).update_counter(v_keys.to_generator()).len())".to_string());
            expected.push_str(&format!("{}\n", counts.len()));
            for c in 0..e.min(UNIVERSE) {
                body.push(format!("display(mapping(v_h, v_e).update_counter(v_keys.to_generator()).lookup({c}).or(0))"));
                expected.push_str(&format!("{}\n", counts.get(&c).copied().unwrap_or(0)));
            }
        }
        1 => {
            kind = "cross-hash-sets";
            let (m1, m2) = (*rng.pick(&[1i64, 2, 3, 1000]), *rng.pick(&[2i64, 3, 5, 7]));
            text.push_str(&format!("fn v_h1(v_k: int)->int{{ v_k % {m1} }}\nfn v_h2(v_k: int)->int{{ v_k % {m2} }}\nfn v_e(v_a: int, v_b: int)->bool{{ v_a == v_b }}\n"));
            let a: Vec<i64> = if rng.chance(1, 2) { vec![] } else { (0..rng.below(4)).map(|_| rng.below(UNIVERSE as u64) as i64).collect() };
            let b: Vec<i64> = (0..1 + rng.below(6)).map(|_| rng.below(UNIVERSE as u64) as i64).collect();
            let sa: std::collections::BTreeSet<i64> = a.iter().copied().collect();
            let sb: std::collections::BTreeSet<i64> = b.iter().copied().collect();
            text.push_str(&format!("let v_a = set(v_h1, v_e).update({});\nlet v_b = set(v_h2, v_e).update({});\n", if a.is_empty() { "cast<Sequence<int>>([])".to_string() } else { keys_lit(&a) }, keys_lit(&b)));
            let results: Vec<(&str, String, std::collections::BTreeSet<i64>)> = vec![
                ("v_u", "v_a | v_b".into(), sa.union(&sb).copied().collect()),
                ("v_w", "v_a.update(v_b.to_generator())".into(), sa.union(&sb).copied().collect()),
                ("v_x", "v_a ^ v_b".into(), sa.symmetric_difference(&sb).copied().collect()),
                ("v_r", "v_b | v_a".into(), sa.union(&sb).copied().collect()),
            ];
            for (name, expr, _) in &results {
                text.push_str(&format!("let {name} = {expr};\n"));
            }
            for (name, _, model) in &results {
                body.push(format!("display({name}.len())"));
                expected.push_str(&format!("{}\n", model.len()));
                body.push(format!("display({name}.to_array().sort().to_str())"));
                expected.push_str(&format!("[{}]\n", model.iter().map(|k| k.to_string()).collect::<Vec<_>>().join(", ")));
                for k in 0..UNIVERSE {
                    body.push(format!("display({name}.contains({k}))"));
                    expected.push_str(&format!("{}\n", model.contains(&k)));
                }
                let probe = rng.below(UNIVERSE as u64) as i64;
                body.push(format!("display({name}.add({probe}).len())"));
                expected.push_str(&format!("{}\n", model.len() + usize::from(!model.contains(&probe))));
                body.push(format!("display({name}.discard({probe}).len())"));
                expected.push_str(&format!("{}\n", model.len() - usize::from(model.contains(&probe))));
                body.push(format!("display({name} == v_b)"));
                expected.push_str(&format!("{}\n", *model == sb));
                body.push(format!("display({name} >= v_b)"));
                expected.push_str(&format!("{}\n", sb.is_subset(model)));
                body.push(format!("display(({name} - v_b).len())"));
                expected.push_str(&format!("{}\n", model.difference(&sb).count()));
                body.push(format!("display(({name} & v_b).len())"));
                expected.push_str(&format!("{}\n", model.intersection(&sb).count()));
            }
        }
        _ => {
            kind = "collections-as-keys";
            // a and b collide under v_h (same bucket), so their order inside the bucket is the insertion order
            let mm = *rng.pick(&[1i64, 2, 3]);
            text.push_str(&format!("fn v_h(v_k: int)->int{{ v_k % {mm} }}\nfn v_e(v_a: int, v_b: int)->bool{{ v_a == v_b }}\n"));
            let n = 2 + rng.below(2) as usize;
            let mut names = vec![];
            for i in 0..n {
                let a = i as i64 * mm * 2;
                let b = a + mm;
                let c = a + mm * 5;
                let (va, vb, vc) = (1 + rng.below(3) as i64, 1 + rng.below(3) as i64, 1 + rng.below(3) as i64);
                text.push_str(&format!("let v_k{i}a = mapping(v_h, v_e).set({a}, {va}).set({b}, {vb}).set({c}, {vc});\n"));
                text.push_str(&format!("let v_k{i}b = mapping(v_h, v_e).set({c}, {vc}).set({b}, {vb}).set({a}, {va});\n"));
                names.push(i);
            }
            text.push_str(&format!("let v_o = set<Mapping<int, int>>(){};\n", names.iter().map(|i| format!(".add(v_k{i}a)")).collect::<String>()));
            text.push_str(&format!("let v_q = mapping<Mapping<int, int>>(){};\n", names.iter().map(|i| format!(".set(v_k{i}a, {})", 100 + i)).collect::<String>()));
            body.push("display(v_o.len())".into());
            expected.push_str(&format!("{n}\n"));
            for i in &names {
                body.push(format!("display(v_k{i}a == v_k{i}b)"));
                expected.push_str("true\n");
                body.push(format!("display(hash(v_k{i}a) == hash(v_k{i}b))"));
                expected.push_str("true\n");
                body.push(format!("display(v_o.contains(v_k{i}b))"));
                expected.push_str("true\n");
                body.push(format!("display(v_o.add(v_k{i}b).len())"));
                expected.push_str(&format!("{n}\n"));
                body.push(format!("display(v_o.discard(v_k{i}b).len())"));
                expected.push_str(&format!("{}\n", n - 1));
                body.push(format!("display(v_q.lookup(v_k{i}b).or(0 - 1))"));
                expected.push_str(&format!("{}\n", 100 + i));
                body.push(format!("display(v_q.set(v_k{i}b, 7).len())"));
                expected.push_str(&format!("{n}\n"));
            }
        }
    }
    text.push_str("fn main()->bool{\n");
    for (j, b) in body.iter().enumerate() {
        text.push_str(&format!("    let v_o{j} = {b};\n"));
    }
    text.push_str("    true\n}\n");
    History { text, expected, e, m, n_ops: body.len(), kind }
}

/// collections large enough that the natives' own allocation pre-flights are points where a
/// size limit can land (300 elements: every update pre-flights about 2.4 KB)
pub const BIG_OBS: &[(&str, &str, &str)] = &[
    ("set", "v_s.discard(7).len()", "299"),
    ("set", "v_s.discard(7).contains(7)", "false"),
    ("set", "v_s.remove(8).len()", "299"),
    ("set", "v_s.add(1000).len()", "301"),
    ("set", "v_s.discard(5000).len()", "300"),
    ("set", "(v_s | set<int>().update(range(290, 320))).len()", "320"),
    ("set", "(v_s - set<int>().update(range(0, 100))).len()", "200"),
    ("set", "(v_s & set<int>().update(range(250, 400))).len()", "50"),
    ("set", "(v_s ^ set<int>().update(range(250, 400))).len()", "350"),
    ("set", "v_s.update(range(295, 310)).len()", "310"),
    ("map", "v_m.discard(7).len()", "299"),
    ("map", "v_m.discard(7).contains(7)", "false"),
    ("map", "v_m.pop(8).len()", "299"),
    ("map", "v_m.set(1000, 1).len()", "301"),
    ("map", "v_m.set(7, 1).get(7)", "1"),
    ("map", "v_m.set_default(7, 1).get(7)", "14"),
    ("map", "v_m.set_default(1000, 1).len()", "301"),
    ("map", "v_m.update(v_m.set(2000, 5)).len()", "301"),
    ("map", "v_m.map_values((v_v: int)->{v_v + 1}).get(3)", "7"),
    ("map", "v_m.update_from_keys(range(295, 305), (v_k: int)->{0}, (v_k: int, v_v: int)->{v_v}).len()", "305"),
    ("cset", "v_c.discard(9).len()", "199"),
    ("cset", "v_c.discard(9).contains(9)", "false"),
    ("cset", "v_c.add(500).len()", "201"),
    ("cset", "v_c.remove(10).contains(14)", "true"),
];

/// one collection large enough that the native's own allocation pre-flight is the largest request
/// of the program, and one operation on it (so that a size limit can land exactly there)
pub fn big_collections(idx: usize) -> History {
    let ballast = "b".repeat(1400);
    let (which, e, want) = BIG_OBS[idx % BIG_OBS.len()];
    let mut text = format!("let v_ballast = \"{ballast}\";\n");
    text.push_str(match which {
        "set" => "let v_s = set<int>().update(range(300));\n",
        "map" => "let v_m = mapping<int>().update(range(300).to_generator().map((v_x: int)->{(v_x, v_x * 2)}));\n",
        _ => "let v_c = set((v_x: int)->{v_x % 4}, (v_a: int, v_b: int)->{v_a == v_b}).update(range(200));\n",
    });
    text.push_str(&format!("fn main()->bool{{\n    let v_o0 = display({e});\n    true\n}}\n"));
    History { text, expected: format!("{want}\n"), e: 0, m: idx as i64, n_ops: 1, kind: "big-collections" }
}

pub fn make(spec: &JobSpec, ex: &mut Executor, out: &mut JobResult) -> Option<Box<dyn Job>> {
    match spec.kind.as_str() {
        "histories" => {
            let mut rng = Prng::new(spec.seed);
            let count = spec.params.get("count").and_then(|v| v.as_u64()).unwrap_or(10) as usize;
            let layouts = spec.params.get("layouts").and_then(|v| v.as_u64()).unwrap_or(2) as usize;
            let max_ops = spec.params.get("max_ops").and_then(|v| v.as_u64()).unwrap_or(40) as usize;
            let mut cases = vec![];
            for k in 0..count {
                // one history in four is a "light" one (point queries only) run under small search limits:
                // a bucket scan that is cut short by the host's search budget must be a violation, never a wrong answer
                if k % 4 == 3 {
                    let h = if rng.chance(1, 2) { mapping_history(&mut rng, max_ops.min(16), true) } else { set_history(&mut rng, max_ops.min(16), true) };
                    for search in [0usize, 1, 3, 6] {
                        let mut sc = Scenario::standard(&h.text, Limits::calibration());
                        sc.seed = spec.seed.wrapping_add(k as u64);
                        sc.limits.search = Some(search);
                        sc.label = format!("C17 {} E={} M={} ops={} search={}", h.kind, h.e, h.m, h.n_ops, search);
                        cases.push((sc, h.expected.clone()));
                    }
                    continue;
                }
                let h = if k % 4 == 1 { special_history(&mut rng) } else if rng.chance(1, 2) { mapping_history(&mut rng, max_ops, false) } else { set_history(&mut rng, max_ops, false) };
                for l in 0..layouts {
                    let mut sc = Scenario::standard(&h.text, Limits::calibration());
                    sc.seed = spec.seed.wrapping_add(k as u64);
                    sc.env.layout_seed = if l == 0 { 1 } else { rng.next_u64() | 1 };
                    sc.label = format!("C17 {} E={} M={} ops={}", h.kind, h.e, h.m, h.n_ops);
                    cases.push((sc, h.expected.clone()));
                }
            }
            if out.samples.len() < 2 {
                if let Some((sc, exp)) = cases.first() {
                    out.samples.push(json!({"kind": "history", "label": sc.label, "program": sc.program.chars().take(1500).collect::<String>(),
                        "expected_output_head": exp.chars().take(200).collect::<String>(), "layouts": layouts}));
                }
            }
            Some(Box::new(HistJob { cases }))
        }
        "faults" | "big-faults" => {
            // call/size faults inside hash and eq callbacks of one generated history
            let mut rng = Prng::new(spec.seed);
            let h = if spec.kind == "big-faults" {
                big_collections(spec.params.get("obs").and_then(|v| v.as_u64()).unwrap_or(0) as usize)
            } else if rng.chance(1, 2) {
                mapping_history(&mut rng, 12, false)
            } else {
                set_history(&mut rng, 12, false)
            };
            let mut sc = Scenario::standard(&h.text, Limits::calibration());
            sc.label = format!("C17 faults {} E={} M={} ops={}", h.kind, h.e, h.m, h.n_ops);
            sc.ops = super::c06::rerun_ops();
            let base = prepare_base(P, P, &sc, ex, out)?;
            let max = spec.params.get("max_points").and_then(|v| v.as_u64()).unwrap_or(40) as usize;
            let (points, _) = sweep::points(&base, &[Kind::Calls, Kind::Size, Kind::Depth], max, spec.seed);
            Some(Box::new(FaultJob { base, points: points.into_iter().map(|p| p.scenario).collect(), expected: h.expected }))
        }
        "single" => {
            let sc: Scenario = serde_json::from_value(spec.params.get("scenario")?.clone()).ok()?;
            // the expected output is recomputed from the fault-free run of the plain layout and
            // cross-checked by rerunning: a replay file carries the program, not the model
            let mut plain = sc.clone();
            plain.env.layout_seed = 1;
            plain.limits = Limits::calibration();
            plain.env.writer.clear();
            let expected = match ex.exec(&plain) {
                Exec::Run(r) => String::from_utf8_lossy(&r.out).to_string(),
                _ => String::new(),
            };
            Some(Box::new(HistJob { cases: vec![(sc, expected)] }))
        }
        k => {
            out.notes.push(format!("C17: unknown job kind {k}"));
            None
        }
    }
}

struct HistJob {
    cases: Vec<(Scenario, String)>,
}

fn first_diff(a: &str, b: &str) -> String {
    for (i, (x, y)) in a.lines().zip(b.lines()).enumerate() {
        if x != y {
            return format!("observation #{i}: got {x:?}, model says {y:?}");
        }
    }
    format!("{} observations, model has {}", a.lines().count(), b.lines().count())
}

fn judge_hist(sc: &Scenario, expected: &str, r: &RunResult, out: &mut JobResult) {
    for f in o_crash(r) {
        out.violate(violation(P, P, f, sc));
    }
    for f in o_balance(r) {
        out.violate(violation(P, P, f, sc));
    }
    let kind = sc.label.split_whitespace().nth(1).unwrap_or("").to_string();
    match r.main_outcome() {
        Outcome::Value(v) if v == "true" => {}
        Outcome::Violation(v) if v == "MaximumSearch" && sc.limits.search.is_some() => {
            out.probe("search_limited_history_refused");
            return;
        }
        other => {
            out.violate(violation(P, P, ("model".into(), format!("{kind}: history program did not complete"), format!("{other:?}")), sc));
            return;
        }
    }
    let got = String::from_utf8_lossy(&r.out).to_string();
    if got != expected {
        out.violate(violation(
            P,
            P,
            ("model".into(), format!("{kind}: observations differ from the association-list model"), format!("layout seed {}: {}", sc.env.layout_seed, first_diff(&got, expected))),
            sc,
        ));
    }
}

impl Job for HistJob {
    fn len(&self) -> usize {
        self.cases.len()
    }
    fn scenario(&mut self, i: usize) -> Scenario {
        self.cases[i].0.clone()
    }
    fn judge(&mut self, i: usize, sc: &Scenario, r: Exec, out: &mut JobResult) {
        let r = match r {
            Exec::Run(r) => r,
            Exec::CompileError(m) => {
                out.notes.push(format!("{}: generated history does not compile: {}", sc.label, m.chars().take(200).collect::<String>()));
                out.count("history_compile_failures", 1);
                return;
            }
            Exec::CompilePanic(p) => {
                out.violate(violation(P, P, ("crash".into(), crash_signature(&p), p.clone()), sc));
                return;
            }
        };
        out.absorb_run(&r);
        judge_hist(sc, &self.cases[i].1, &r, out);
        out.tuples.insert(format!("{}|layout{}", sc.label, if sc.env.layout_seed == 1 { 0 } else { 1 }));
        out.probe("histories_checked");
        if sc.label.contains(" M=1 ") {
            out.probe("all_keys_collide");
        }
        if sc.label.contains(" E=1 ") || sc.label.contains(" E=2 ") || sc.label.contains(" E=3 ") {
            out.probe("equality_coarser_than_identity");
        }
        if sc.env.layout_seed != 1 {
            out.probe("alternate_layout");
        }
        if sc.limits.search.is_some() && matches!(r.main_outcome(), Outcome::Value(_)) {
            out.probe("search_limited_history_completed");
        }
    }
}

struct FaultJob {
    base: super::Base,
    points: Vec<Scenario>,
    expected: String,
}

impl Job for FaultJob {
    fn len(&self) -> usize {
        self.points.len()
    }
    fn scenario(&mut self, i: usize) -> Scenario {
        self.points[i].clone()
    }
    fn judge(&mut self, _i: usize, sc: &Scenario, r: Exec, out: &mut JobResult) {
        let Exec::Run(r) = r else { return };
        out.absorb_run(&r);
        for f in o_crash(&r) {
            out.violate(violation(P, P, f, sc));
        }
        for f in o_uncaught(&r) {
            out.violate(violation(P, P, f, sc));
        }
        for f in o_balance(&r) {
            out.violate(violation(P, P, f, sc));
        }
        for f in crate::oracles::o_transparent_ops(sc, &self.base.reference, &r) {
            out.violate(violation(P, P, f, sc));
        }
        // a run of main that completes prints exactly the model's observations
        for (i, op) in r.ops.iter().enumerate() {
            if matches!(&op.outcome, Outcome::Value(v) if v == "true") {
                let start = if i == 0 { 0 } else { r.ops[i - 1].out_len };
                let seg = String::from_utf8_lossy(&r.out[start.min(r.out.len())..op.out_len.min(r.out.len())]).to_string();
                if seg != self.expected {
                    out.violate(violation(P, P, ("model".into(), "observations differ from the model in a run that followed a violation".into(), first_diff(&seg, &self.expected)), sc));
                }
                if r.ops.iter().take(i).any(|o| o.outcome.violation_kind().is_some()) {
                    out.probe("complete_run_after_violation_matches_model");
                }
            }
        }
        if r.ops.iter().any(|o| o.outcome.violation_kind().is_some()) {
            out.probe("violation_inside_collection_callback");
        }
        let vk = r.ops.iter().find_map(|o| o.outcome.violation_kind()).unwrap_or("none").to_string();
        out.tuples.insert(format!("{}|{}|{}", self.base.sc.label, vk, r.fired_sites.first().cloned().unwrap_or_default()));
    }
}
