//! C12 — compilation is deterministic and history-independent (the half this technique decides).
//!
//! The outcome of feeding a text to the compiler (accepted / rendered error text) and the
//! behaviour of the compiled program must be a function of the text alone. Everything else the
//! process can vary is put under the simulator: iteration order of every compile-time hash
//! container (seeded hasher keys), the process-global scope-id counter (seeded skips = other
//! compilations, earlier or on other threads), the history of earlier compilations on this
//! thread, and repetition. Any two environments must agree.

use super::violation;
use crate::corpus;
use crate::engine::{HostOp, Limits, Outcome, Scenario};
use crate::job::{Exec, Executor, Job, JobResult, JobSpec};
use crate::oracles::crash_signature;
use crate::prng::Prng;
use serde_json::json;

const P: &str = "C12";

/// texts that provoke each family of compile error with several candidates to choose from
pub const FIXED: &[(&str, &str)] = &[
    ("two-unmet-forwards", "forward fn v_a(v_x: int)->int;\nforward fn v_b(v_x: int)->int;\nforward fn v_c(v_x: int)->int;\nfn v_use()->int{ v_a(1) + v_b(2) + v_c(3) }\nlet v_z = v_use();\nfn main()->bool{ true }"),
    ("four-unmet-forwards", "forward fn v_a()->int;\nforward fn v_b()->int;\nforward fn v_c()->int;\nforward fn v_d()->int;\nfn v_use()->int{ v_d() + v_c() + v_b() + v_a() }\nfn main()->bool{ v_use() > 0 }\nlet v_q = main();"),
    ("struct4-sort-no-cmp", "struct V_A(v_a: int, v_b: str, v_c: float, v_d: bool)\nfn main()->bool{ [V_A(1, \"a\", 1.0, true)].sort().len() == 1 }"),
    ("struct4-eq-no-eq", "struct V_A(v_a: int, v_b: str, v_c: float, v_d: bool)\nfn main()->bool{ V_A(1, \"a\", 1.0, true) == V_A(1, \"a\", 1.0, true) }"),
    ("generic-struct3-no-overload", "struct V_G<T, U, V>(v_a: T, v_b: U, v_c: V)\nfn main()->bool{ V_G(1, \"a\", 2.0).to_str().len() > 0 }"),
    ("generic-struct3-hash", "struct V_G<T, U, V>(v_a: T, v_b: U, v_c: V)\nfn main()->bool{ hash(V_G(1, \"a\", 2.0)) > 0 }"),
    ("union3-no-overload", "union V_U(v_a: int, v_b: str, v_c: float)\nfn main()->bool{ [V_U::v_a(1)].sort().len() == 1 }"),
    ("mapping-of-struct-keys", "struct V_A(v_a: int, v_b: str, v_c: float)\nfn main()->bool{ mapping<V_A>().len() == 0 }"),
    ("set-of-struct", "struct V_A(v_a: int, v_b: str, v_c: float)\nfn main()->bool{ set<V_A>().len() == 0 }"),
    ("ambiguous-user-overloads", "fn v_f(v_a: int, v_b: float)->int{ 1 }\nfn v_f(v_a: float, v_b: int)->int{ 2 }\nfn v_f<T>(v_a: T, v_b: T)->int{ 3 }\nfn main()->bool{ v_f([][0], [][0]) == 1 }"),
    ("no-overload-many-candidates", "fn v_f(v_a: int)->int{ 1 }\nfn v_f(v_a: str)->int{ 2 }\nfn v_f(v_a: bool)->int{ 3 }\nfn v_f(v_a: float, v_b: int)->int{ 4 }\nfn main()->bool{ v_f((1, 2)) == 1 }"),
    ("dyn-failure-nested-compound", "struct V_I(v_p: int, v_q: int, v_r: int)\nstruct V_O(v_x: V_I, v_y: Sequence<V_I>, v_z: Optional<V_I>)\nfn main()->bool{ V_O(V_I(1, 2, 3), [], none()) < V_O(V_I(1, 2, 3), [], none()) }"),
    ("tuple-of-structs-cmp", "struct V_I(v_p: int, v_q: int, v_r: int)\nfn main()->bool{ cmp((V_I(1, 2, 3), 1), (V_I(1, 2, 3), 2)) == 0 }"),
    ("generic-bind-mismatch", "fn v_g<A, B, C>(v_a: A, v_b: B, v_c: C, v_d: A)->A{ v_a }\nfn main()->bool{ v_g(1, \"s\", 2.0, \"x\") == 1 }"),
    ("ok-many-generics", "struct V_G<T, U, V>(v_a: T, v_b: U, v_c: V)\nfn v_mk<T, U, V>(v_a: T, v_b: U, v_c: V)->V_G<T, U, V>{ V_G(v_a, v_b, v_c) }\nfn main()->bool{ v_mk(1, \"a\", 2.0)::v_a == 1 && display(v_mk(true, 2, \"z\")::v_b) == 2 }"),
    ("ok-forward-chain", "forward fn v_a(v_x: int)->int;\nforward fn v_b(v_x: int)->int;\nfn v_use(v_x: int)->int{ if(v_x <= 0, 0, v_a(v_x - 1) + v_b(v_x - 1)) }\nfn v_a(v_x: int)->int{ v_use(v_x) + 1 }\nfn v_b(v_x: int)->int{ v_use(v_x) + 2 }\nfn main()->bool{ display(v_use(4)) > 0 }"),
    ("ok-set-iteration", "fn main()->bool{ display(set<int>().update(range(40)).to_array().len()) == 40 && display(mapping<str>().set(\"a\", 1).set(\"b\", 2).set(\"c\", 3).len()) == 3 }"),
    ("auto-nested-in-generic", "fn v_foo(v_a: Sequence<int>)->int{ 1 }\nlet v_x = v_foo{Sequence<$>}([1]);\nfn main()->bool{ true }"),
    ("auto-nested-sum", "let v_x = sum{Sequence<$>}([1]);\nfn main()->bool{ true }"),
    ("auto-nested-optional", "let v_x = hash{Optional<$>};\nfn main()->bool{ true }"),
    ("auto-top-level-ok", "fn v_foo(v_a: int)->int{ v_a }\nlet v_x = v_foo{$}(1);\nfn main()->bool{ v_x == 1 }"),
    ("auto-in-type-position", "fn v_foo(v_a: $)->int{ 1 }\nfn main()->bool{ true }"),
    ("auto-without-call", "fn v_foo(v_a: int)->int{ v_a }\nlet v_x = v_foo{$};\nfn main()->bool{ true }"),
    ("item64-value-not-found", "let v_y = item64;\nfn main()->bool{ true }"),
    ("item63-value-not-found", "let v_y = item63;\nfn main()->bool{ true }"),
    ("item64-member-not-found", "struct V_A(v_a: int)\nlet v_v = V_A(1)::item64;\nfn main()->bool{ true }"),
    ("item200-twice", "let v_y = item200 + item200;\nfn main()->bool{ true }"),
    ("ok-local-overload-captures-per-call", "struct V_P(v_v: int)\nfn v_mk(v_k: int)->bool{ fn eq(v_x: V_P, v_y: V_P)->bool{ v_x::v_v + v_k == v_y::v_v } V_P(1) != V_P(3) }\nfn main()->bool{ display(v_mk(0)) == true && display(v_mk(2)) == false && display(v_mk(0)) == true }"),
    ("ok-local-cmp-captures-per-call", "struct V_P(v_v: int)\nfn v_mk(v_k: int)->bool{ fn cmp(v_x: V_P, v_y: V_P)->int{ cmp(v_x::v_v * v_k, v_y::v_v * v_k) } V_P(1) < V_P(3) }\nfn main()->bool{ display(v_mk(1)) == true && display(v_mk(0 - 1)) == false && display(v_mk(1)) == true }"),
    ("ok-local-to_str-captures-per-call", "struct V_P(v_v: int)\nfn v_mk(v_k: int)->str{ fn to_str(v_x: V_P)->str{ (v_x::v_v + v_k).to_str() } [V_P(1), V_P(2)].to_str() }\nfn main()->bool{ display(v_mk(0)) == \"[1, 2]\" && display(v_mk(10)) == \"[11, 12]\" }"),
    ("ok-fstring-and-join", "fn main()->bool{ let v_x = 5; display(f\"a{v_x}b{v_x}c\") == \"a5b5c\" && display([\"p\", \"q\", \"r\"].join()) == \"pqr\" && display([\"p\", \"q\"].join(\"-\")) == \"p-q\" }"),
    ("ok-string-literals", "fn main()->bool{ display(\"plain\") == \"plain\" && display(\"\") == \"\" && (\"a\" + \"\" + \"b\").len() == 2 && display(\"tab\\tquote\\\"\").len() == 10 }"),
    ("ok-default-with-effect", "fn v_f(v_x: int ?= display(7))->int{ v_x }\nfn main()->bool{ v_f() == 7 && v_f(3) == 3 }"),
    ("ok-nested-default-reads-enclosing-argument", "fn v_scaled(v_k: int)->int{ fn v_in(v_x: int ?= v_k * 5)->int{ v_x } v_in() }\nfn main()->bool{ display(v_scaled(1)) == 5 && display(v_scaled(2)) == 10 && display(v_scaled(1)) == 5 }"),
    ("ok-toplevel-let-with-effect", "let v_t = display(11);\nfn main()->bool{ v_t == 11 }"),
    ("ok-local-closure-over-argument", "fn v_mk(v_k: int)->int{ let v_g = (v_x: int)->{ v_x + v_k }; v_g(1) }\nfn main()->bool{ display(v_mk(1)) == 2 && display(v_mk(5)) == 6 }"),
    ("lambda-required-after-optional", "let v_f = (v_a: int ?= 1, v_b: int)->{v_a};\nfn main()->bool{ true }"),
    ("fn-required-after-optional", "fn v_f(v_a: int ?= 1, v_b: int)->int{ v_a }\nfn main()->bool{ true }"),
    ("lambda-duplicate-parameter", "let v_f = (v_a: int, v_a: int)->{v_a};\nfn main()->bool{ true }"),
    ("lambda-unknown-parameter-type", "let v_f = (v_a: V_Nope)->{1};\nfn main()->bool{ true }"),
    ("lambda-default-of-wrong-type", "let v_f = (v_a: int ?= \"s\")->{v_a};\nfn main()->bool{ true }"),
    ("lambda-wrong-argument-count", "let v_f = (v_a: int)->{v_a};\nlet v_x = v_f(1, 2);\nfn main()->bool{ true }"),
    ("lambda-wrong-argument-type", "let v_f = (v_a: int)->{v_a};\nlet v_x = v_f(\"s\");\nfn main()->bool{ true }"),
    ("lambda-shadows-overload", "fn v_g(v_a: int)->int{ v_a }\nlet v_g = ()->{1};\nfn main()->bool{ true }"),
    ("nested-lambda-required-after-optional", "fn main()->bool{ let v_f = ()->{ (v_a: int ?= 1, v_b: int)->{v_a} }; true }"),
    ("display-three-args", "fn main()->bool{ display(1, \"a\", \"b\") == 1 }"),
    ("display-method-three-args", "fn main()->bool{ 1.display(\"a\", 2) == 1 }"),
    ("debug-three-args", "fn main()->bool{ debug(1, \"a\", \"b\") == 1 }"),
    ("display-zero-args", "fn main()->bool{ display() == 1 }"),
    ("if-four-args", "fn main()->bool{ if(true, 1, 2, 3) == 1 }"),
    ("partial-no-args", "fn main()->bool{ partial() == 1 }"),
    ("sort-three-args", "fn main()->bool{ [1].sort(cmp{int, int}, 3).len() == 1 }"),
    ("get-five-args", "fn main()->bool{ [1].get(0, 1, 2, 3) == 1 }"),
    ("syntax-error", "fn main()->bool{ (1 + }"),
    ("unknown-type", "fn main()->Sequnce<int>{ [] }"),
    ("empty", ""),
];

/// every spelling of a numeric literal the grammar might meet, in three syntactic contexts
pub fn literal_texts() -> Vec<(String, String)> {
    let f32s = "f".repeat(32);
    let f33s = "f".repeat(33);
    let f40s = "F".repeat(40);
    let ones127 = "1".repeat(127);
    let ones128 = "1".repeat(128);
    let ones200 = "1".repeat(200);
    let dec45 = "9".repeat(45);
    let lits: Vec<String> = vec![
        "0", "7", "007", "1_000", "1__0", "1_", "9223372036854775807", "9223372036854775808", "170141183460469231731687303715884105727",
        "170141183460469231731687303715884105728", &dec45, "0x0", "0xff", "0xFF", "0Xff", "0XFF", "0x_", "0x_f", "0xf_", "0x__", "0xg", "0x",
        &format!("0x{f32s}"), &format!("0x{f33s}"), &format!("0x{f40s}"), "0b0", "0b1_0", "0B1", "0B101", "0b_", "0b__1", "0b2", "0b",
        &format!("0b{ones127}"), &format!("0b{ones128}"), &format!("0b{ones200}"), "1.0", "1.", ".5", "1.5e3", "1E5", "1e5", "1e-3", "1e+3", "1e999", "1e-999",
        "1_0.0_1", "1.e5", "0.0", "00.1", "1e", "1e_", "1.0.0", "0o17", "1f", "٣", "１２",
    ]
    .into_iter()
    .map(|s| s.to_string())
    .collect();
    let mut out = vec![];
    for l in lits {
        out.push((format!("literal:let:{l}"), format!("let v_x = {l};\nfn main()->bool{{ true }}")));
        out.push((format!("literal:arg:{l}"), format!("fn main()->bool{{ display({l}) == {l} }}")));
        out.push((format!("literal:fstring:{l}"), format!("fn main()->bool{{ f\"{{{l}}}\".len() > 0 }}")));
    }
    out
}

/// semantic errors whose reported span is long and full of multi-byte characters, with every
/// alignment of the characters against byte offsets
pub fn unicode_span_texts() -> Vec<(String, String)> {
    let runs = [("czech", "ěščřžýáíé"), ("japanese", "日本語のテキスト"), ("emoji", "😀🎉🚀👍"), ("mixed", "aé日😀")];
    let mut out = vec![];
    for (name, unit) in runs {
        for pad in 0..4 {
            let body: String = std::iter::repeat(unit).take(30).collect();
            let padding = "a".repeat(pad);
            out.push((format!("unicode-span:{name}:pad{pad}:str-plus-int"), format!("let v_s = \"{padding}{body}\" + 5;\nfn main()->bool{{ true }}")));
            out.push((format!("unicode-span:{name}:pad{pad}:bad-member"), format!("struct V_A(v_k: int)\nlet v_s = V_A(1)::v_{padding}missing + \"{body}\".len();\nfn main()->bool{{ true }}")));
            out.push((format!("unicode-span:{name}:pad{pad}:wrong-arg"), format!("fn v_f(v_x: int)->int{{ v_x }}\nlet v_s = v_f(\"{padding}{body}\");\nfn main()->bool{{ true }}")));
        }
    }
    out
}

/// programs for a host's own root scope (no std library): compiled *after* std programs in the same process
pub fn sandbox_texts() -> Vec<(String, String)> {
    vec![
        ("sandbox:operators".to_string(), "fn add(a: bool, b: bool)->bool{ a }\nfn eq(a: bool, b: bool)->bool{ b }\nfn main()->bool{ (true + false) == true }".to_string()),
        ("sandbox:all-operators".to_string(), "fn add(a: bool, b: bool)->bool{ a }\nfn sub(a: bool, b: bool)->bool{ a }\nfn mul(a: bool, b: bool)->bool{ b }\nfn lt(a: bool, b: bool)->bool{ b }\nfn and(a: bool, b: bool)->bool{ b }\nfn eq(a: bool, b: bool)->bool{ b }\nfn main()->bool{ ((true + false) - true) * true == true && (false < true) }".to_string()),
        ("sandbox:missing-operator".to_string(), "fn main()->bool{ true + false }".to_string()),
    ]
}

/// long tuples: member names item<N> beyond any small table
pub fn long_tuple_texts() -> Vec<(String, String)> {
    [63usize, 64, 65, 70, 130]
        .iter()
        .map(|n| {
            let tup = format!("({})", (0..*n).map(|i| i.to_string()).collect::<Vec<_>>().join(", "));
            let last = n - 1;
            (format!("fixed:tuple-{n}"), format!("let v_t = {tup};\nfn main()->bool{{ v_t::item{last} + v_t::item{last} == {} && v_t::item0 == 0 }}", 2 * last))
        })
        .collect()
}

pub fn book_examples() -> Vec<(String, String)> {
    let root = format!("{}/book/src", corpus::repo_root());
    let mut files = vec![];
    fn walk(dir: &str, out: &mut Vec<String>) {
        if let Ok(rd) = std::fs::read_dir(dir) {
            let mut entries: Vec<_> = rd.filter_map(|e| e.ok()).map(|e| e.path()).collect();
            entries.sort();
            for p in entries {
                if p.is_dir() {
                    walk(&p.to_string_lossy(), out);
                } else if p.extension().map_or(false, |e| e == "md") {
                    out.push(p.to_string_lossy().to_string());
                }
            }
        }
    }
    walk(&root, &mut files);
    let mut out = vec![];
    for f in files {
        let text = std::fs::read_to_string(&f).unwrap_or_default();
        let short = f.rsplit("/src/").next().unwrap_or(&f).to_string();
        let mut cur: Option<String> = None;
        let mut n = 0;
        for line in text.lines() {
            let t = line.trim_start();
            if let Some(body) = cur.as_mut() {
                if t.starts_with("```") {
                    out.push((format!("book:{short}#{n}"), std::mem::take(body)));
                    cur = None;
                    n += 1;
                } else {
                    body.push_str(line);
                    body.push('\n');
                }
            } else if t.starts_with("```xray") {
                cur = Some(String::new());
            }
        }
    }
    out
}

/// Scalable shapes: small texts whose size grows linearly with N while the structure stays
/// trivial - nesting and chaining of every bracketing / chaining construct of the grammar and
/// the type checker. Each must be accepted, run, and return true; a compilation whose cost
/// explodes with N shows as a hang of that scenario (totality of compilation on a fixed family).
pub fn shape_texts(thorough: bool) -> Vec<(String, String)> {
    let nest: &[usize] = if thorough { &[4, 12, 24, 40, 64] } else { &[4, 12, 24, 40] };
    let chain: &[usize] = if thorough { &[8, 64, 256, 1000] } else { &[8, 64, 256] };
    let mut out = vec![];
    let mut add = |name: &str, n: usize, text: String| out.push((format!("fixed:ok-shape-{name}-{n}"), text));
    for &n in nest {
        add("nested-tuple-literal", n, format!("fn main()->bool{{ let v_t = {}1, 2{}; true }}", "(".repeat(n), ", 3)".repeat(n)));
        add("nested-one-tuple", n, format!("fn main()->bool{{ let v_t = {}1{}; true }}", "(".repeat(n), ",)".repeat(n)));
        add("nested-parentheses", n, format!("fn main()->bool{{ {}1{} == 1 }}", "(".repeat(n), ")".repeat(n)));
        add("nested-array-literal", n, format!("fn main()->bool{{ let v_t = {}1{}; true }}", "[".repeat(n), "]".repeat(n)));
        add("nested-calls", n, format!("fn v_id(v_x: int)->int{{ v_x }}\nfn main()->bool{{ {}1{} == 1 }}", "v_id(".repeat(n), ")".repeat(n)));
        add("nested-if", n, format!("fn main()->bool{{ {}1{} == 1 }}", "if(true, ".repeat(n), ", 0)".repeat(n)));
        add("nested-lambda-calls", n.min(24), format!("fn main()->bool{{ {}1{} == 1 }}", "((v_x: int)->{ ".repeat(n.min(24)), " })(1)".repeat(n.min(24))));
        add("nested-generic-type", n, format!("fn v_f(v_x: {}int{})->int{{ 1 }}\nfn main()->bool{{ true }}", "Sequence<".repeat(n), ">".repeat(n)));
        add("nested-tuple-type", n, format!("fn v_f(v_x: {}int{})->int{{ 1 }}\nfn main()->bool{{ true }}", "(".repeat(n), ", int)".repeat(n)));
        add("nested-tuple-type-last", n, format!("fn v_f(v_x: {}int{})->int{{ 1 }}\nfn main()->bool{{ true }}", "(int, ".repeat(n), ")".repeat(n)));
        add("nested-function-type", n.min(24), format!("fn v_f(v_x: {}int{})->int{{ 1 }}\nfn main()->bool{{ true }}", "()->(".repeat(n.min(24)), ")".repeat(n.min(24))));
        add("nested-struct-field-type", n, format!("struct V_W(v_a: {}int{})\nfn main()->bool{{ true }}", "Optional<".repeat(n), ">".repeat(n)));
        add("nested-optional-value", n.min(24), format!("fn main()->bool{{ {}1{}.has_value() }}", "some(".repeat(n.min(24)), ")".repeat(n.min(24))));
        add("struct-member-chain", n, format!("struct V_N(v_n: V_N, v_v: int)\nfn v_f(v_x: V_N)->int{{ v_x{}::v_v }}\nfn main()->bool{{ true }}", "::v_n".repeat(n)));
        add("tuple-member-chain", n.min(24), format!("fn main()->bool{{ let v_t = {}1{}; v_t{} == 1 }}", "(".repeat(n.min(24)), ", 0)".repeat(n.min(24)), "::item0".repeat(n.min(24))));
        add("index-chain", n.min(24), format!("fn main()->bool{{ let v_t = {}1{}; v_t{} == 1 }}", "[".repeat(n.min(24)), "]".repeat(n.min(24)), "[0]".repeat(n.min(24))));
        add("nested-fstring", n.min(12), {
            let m = n.min(12);
            let mut t = "1".to_string();
            for _ in 0..m {
                t = format!("f\"{{{t}}}\".len()");
            }
            format!("fn main()->bool{{ {t} == 1 }}")
        });
    }
    for &n in chain {
        add("binary-operator-chain", n, format!("fn main()->bool{{ {}1 == {} }}", "1 + ".repeat(n), n + 1));
        add("mixed-operator-chain", n, format!("fn main()->bool{{ {}1 > 0 }}", "1 + 2 * 3 - ".repeat(n)));
        add("boolean-chain", n, format!("fn main()->bool{{ {}true }}", "true && ".repeat(n)));
        add("unary-chain", n.min(256), format!("fn main()->bool{{ {}true }}", "!!".repeat(n.min(256))));
        add("method-chain", n, format!("fn main()->bool{{ 1{} == {} }}", ".add(1)".repeat(n), n + 1));
        add("let-chain", n, {
            let mut t = String::from("fn main()->bool{ let v_x0 = 1; ");
            for i in 1..=n {
                t.push_str(&format!("let v_x{i} = v_x{} + 1; ", i - 1));
            }
            t.push_str(&format!("v_x{n} == {} }}", n + 1));
            t
        });
        add("many-functions", n, {
            let mut t = String::from("fn v_g0()->int{ 1 }\n");
            for i in 1..=n {
                t.push_str(&format!("fn v_g{i}()->int{{ v_g{}() + 1 }}\n", i - 1));
            }
            t.push_str(&format!("fn main()->bool{{ v_g{n}() == {} }}", n + 1));
            t
        });
        add("many-overloads", n.min(64), {
            let m = n.min(64);
            let mut t = String::new();
            for i in 0..m {
                t.push_str(&format!("struct V_S{i}(v_a: int)\nfn v_o(v_x: V_S{i})->int{{ {i} }}\n"));
            }
            t.push_str(&format!("fn main()->bool{{ v_o(V_S{}(1)) == {} }}", m - 1, m - 1));
            t
        });
        add("long-array-literal", n, format!("fn main()->bool{{ [{}0].len() == {} }}", "0, ".repeat(n), n + 1));
        add("long-argument-tuple", n.min(64), format!("fn main()->bool{{ let v_t = ({}0); true }}", "0, ".repeat(n.min(64))));
        add("long-string-literal", n, format!("fn main()->bool{{ \"{}\".len() == {} }}", "ab".repeat(n), 2 * n));
    }
    out.sort();
    out.dedup();
    out
}

/// every derived operation on every degenerate type (no acceptance is demanded - only that the
/// compiler answers, and answers the same way every time)
pub fn degenerate_texts() -> Vec<(String, String)> {
    let types: &[(&str, &str)] = &[
        ("unit", "()"),
        ("one-tuple-of-unit", "((),)"),
        ("unit-and-int", "((), 1)"),
        ("empty-int-seq", "cast<Sequence<int>>([])"),
        ("untyped-empty-seq", "[]"),
        ("absent-int", "cast<Optional<int>>(none())"),
        ("untyped-none", "none()"),
        ("some-unit", "some(())"),
        ("empty-struct", "V_E()"),
        ("empty-set", "set<int>()"),
        ("empty-mapping", "mapping<int>()"),
        ("empty-stack", "stack()"),
        ("seq-of-unit", "[(), ()]"),
        ("nested-empty", "[cast<Sequence<int>>([])]"),
    ];
    let ops: &[(&str, &str)] = &[
        ("eq", "{X} == {X}"),
        ("ne", "{X} != {X}"),
        ("cmp", "cmp({X}, {X}) == 0"),
        ("lt", "{X} < {X}"),
        ("ge", "{X} >= {X}"),
        ("hash", "hash({X}) >= 0"),
        ("to_str", "{X}.to_str().len() >= 0"),
        ("min", "min({X}, {X}) == {X}"),
        ("sort", "[{X}, {X}].sort().len() == 2"),
        ("set-of", "set<int>().len() == 0 && [{X}].to_set().len() == 1"),
        ("format", "format({X}, \"\").len() >= 0"),
        ("display", "display({X}) == {X}"),
        ("in-fstring", "f\"{{X}}\".len() >= 0"),
    ];
    let mut out = vec![];
    for (tn, x) in types {
        for (on, tpl) in ops {
            out.push((format!("degenerate:{on}:{tn}"), format!("struct V_E()\nfn main()->bool{{ {} }}", tpl.replace("{X}", x))));
        }
    }
    out
}

/// ill-typed uses of values whose generic type is only half bound: the error message has to
/// print such a type
pub fn halfbound_error_texts() -> Vec<(String, String)> {
    let values: &[(&str, &str, &str)] = &[
        ("union-unbound", "union V_M<T>(v_just: T, v_nothing: ())", "V_M::v_nothing(())"),
        ("union2-half", "union V_M<T, U>(v_l: T, v_r: U)", "V_M::v_l(1)"),
        ("struct-of-empty-seq", "struct V_G<T>(v_x: Sequence<T>)", "V_G([])"),
        ("struct2-half", "struct V_G<T, U>(v_x: T, v_y: Optional<U>)", "V_G(1, none())"),
        ("untyped-none", "", "none()"),
        ("untyped-empty", "", "[]"),
        ("tuple-with-none", "", "(1, none(), [])"),
        ("empty-stack", "", "stack()"),
        ("lambda-over-unbound", "union V_M<T>(v_just: T, v_nothing: ())", "()->{ V_M::v_nothing(()) }"),
    ];
    let misuses: &[(&str, &str)] = &[
        ("as-int", "let v_c: int = v_a;"),
        ("called", "let v_c = v_a(1);"),
        ("mixed-array", "let v_c = [v_a, 1];"),
        ("no-such-member", "let v_c = v_a::v_zzz;"),
        ("returned-as-int", "fn v_f()->int{ v_a }"),
        ("added", "let v_c = v_a + 1;"),
        ("no-such-method", "let v_c = v_a.v_nothing_like_this();"),
        ("as-str-arg", "let v_c = len(\"\" + v_a);"),
    ];
    let mut out = vec![];
    for (vn, decl, value) in values {
        for (mn, misuse) in misuses {
            out.push((format!("halfbound:{vn}:{mn}"), format!("{decl}\nlet v_a = {value};\n{misuse}\nfn main()->bool{{ true }}")));
        }
    }
    out
}

pub fn make(spec: &JobSpec, _ex: &mut Executor, out: &mut JobResult) -> Option<Box<dyn Job>> {
    match spec.kind.as_str() {
        "text" | "single" => {
            let (label, text) = if let Some(sc) = spec.params.get("scenario") {
                let sc: Scenario = serde_json::from_value(sc.clone()).ok()?;
                (sc.label.clone(), sc.program.clone())
            } else if let Some(id) = spec.params.get("script").and_then(|v| v.as_str()) {
                let s = super::find_script(id)?;
                (format!("script:{}", s.name), s.text)
            } else {
                (spec.params.get("label")?.as_str()?.to_string(), spec.params.get("text")?.as_str()?.to_string())
            };
            let envs = spec.params.get("envs").and_then(|v| v.as_u64()).unwrap_or(4) as usize;
            let allow: Vec<usize> = spec.params.get("allow").and_then(|v| serde_json::from_value(v.clone()).ok()).unwrap_or_default();
            let mut rng = Prng::new(spec.seed);
            let mut scenarios = vec![];
            let single_env = spec.params.get("scenario").and_then(|s| serde_json::from_value::<Scenario>(s.clone()).ok());
            for k in 0..envs.max(2) {
                let mut sc = Scenario::standard(&text, Limits::calibration());
                sc.label = label.clone();
                for i in &allow {
                    sc.perms[*i] = Some(true);
                }
                if k == 0 {
                    // the plain environment: fixed hasher key, no id skips, no history
                    sc.env.compile_layout_seed = 1;
                } else if k == 1 && single_env.is_some() {
                    sc.env = single_env.as_ref().unwrap().env.clone();
                    sc.seed = single_env.as_ref().unwrap().seed;
                } else {
                    sc.env.compile_layout_seed = rng.next_u64() | 1;
                    if rng.chance(1, 2) {
                        sc.env.id_skip_seed = rng.next_u64() | 1;
                        sc.env.id_skip_max = 1 + rng.below(40) as usize;
                    }
                    // seed != 0 asks for a compile history before this compilation
                    sc.seed = if rng.chance(1, 2) { rng.next_u64() | 1 } else { 0 };
                }
                // the runtime layout stays fixed: only compile-time variation is under test here
                sc.env.layout_seed = 1;
                // the compiled program is instantiated twice (two scopes): nothing may be remembered in the
                // compiled program between instantiations
                sc.ops = vec![
                    HostOp::Instantiate { slot: 0 },
                    HostOp::Run { slot: 0, func: "main".into() },
                    HostOp::DropAllResults,
                    HostOp::Instantiate { slot: 1 },
                    HostOp::Run { slot: 1, func: "main".into() },
                    HostOp::DropAllResults,
                    HostOp::DropScope { slot: 1 },
                    HostOp::DropScope { slot: 0 },
                ];
                scenarios.push(sc);
            }
            if out.samples.len() < 2 {
                out.samples.push(json!({"text": label, "environments": scenarios.iter().map(|s| json!({"compile_layout_seed": s.env.compile_layout_seed, "id_skip_seed": s.env.id_skip_seed, "id_skip_max": s.env.id_skip_max, "history_seed": s.seed})).collect::<Vec<_>>()}));
            }
            Some(Box::new(TextJob { scenarios, first: None, history_pool: history_pool() }))
        }
        k => {
            out.notes.push(format!("C12: unknown job kind {k}"));
            None
        }
    }
}

/// single declarations the compiler rejects on the std scope; fed to the scope under test before the text
/// under test, they must leave no trace (no half-registered name, type or overload)
const REJECTED_SINGLE_DECLARATIONS: &[&str] = &[
    "let len = 5;",
    "let to_str = 1;",
    "let v_pre = v_undefined_name;",
    "fn v_pre(v_x: V_NoSuchType)->int{ 1 }",
    "fn v_pre(v_x: int)->int{ v_undefined_name }",
    "let v_pre: int = \"s\";",
    "struct V_Pre(v_a: V_NoSuchType)",
    "union V_Pre(v_a: V_NoSuchType, v_b: int)",
    "let v_pre = 1 +;",
    "let v_pre = \"abc\\qdef\";",
    "fn add(v_x: int, v_y: int)->int{ v_undefined_name }",
    "fn main()->bool{ v_undefined_name }",
    "let main = 3 + \"s\";",
];

fn history_pool() -> Vec<String> {
    // a few small texts, some of which fail to compile, to put before the compilation under test
    let mut v: Vec<String> = FIXED.iter().map(|(_, t)| t.to_string()).collect();
    v.push("fn v_q(v_x: int)->int{ v_x + 1 }\nfn main()->bool{ v_q(1) == 2 }".to_string());
    // rejected texts that stop in the middle of a literal: anything a scratch buffer could retain
    v.push("let v_s = \"abc\\qdef\";".to_string());
    v.push("let v_s = \"bc\\u{D800}a\";".to_string());
    v.push("let v_x = 5;\nlet v_s = f\"<{v_x}tail\\q>\";".to_string());
    v.push("let v_s = \"unterminated".to_string());
    v
}

fn mask_symbol_numbers(m: &str) -> String {
    let mut out = String::with_capacity(m.len());
    let mut rest = m;
    while let Some(i) = rest.find("SymbolU32 { value: ") {
        let j = i + "SymbolU32 { value: ".len();
        out.push_str(&rest[..j]);
        let digits = rest[j..].chars().take_while(|c| c.is_ascii_digit()).count();
        out.push('_');
        rest = &rest[j + digits..];
    }
    out.push_str(rest);
    out
}

#[derive(Clone, Debug, PartialEq)]
enum Obs {
    Rejected(String),
    Accepted { ops: Vec<Outcome>, out: Vec<u8> },
    Panicked(String),
}

struct TextJob {
    scenarios: Vec<Scenario>,
    first: Option<Obs>,
    history_pool: Vec<String>,
}

impl Job for TextJob {
    fn len(&self) -> usize {
        self.scenarios.len()
    }
    fn scenario(&mut self, i: usize) -> Scenario {
        let sc = self.scenarios[i].clone();
        // a third of the environments with a history also feed rejected texts to the SAME scope first
        let mut prelude = vec![];
        if sc.seed != 0 && sc.seed % 3 == 0 && !sc.label.starts_with("sandbox:") {
            let mut rng = Prng::new(sc.seed ^ 0x7072_656c);
            for _ in 0..(1 + rng.below(3)) {
                prelude.push(rng.pick(REJECTED_SINGLE_DECLARATIONS).to_string());
            }
        }
        crate::engine::set_scope_prelude(prelude);
        if sc.seed != 0 {
            // earlier compilations on this thread, successful or not, under other hasher keys
            let mut rng = Prng::new(sc.seed);
            let n = 1 + rng.below(3);
            for k in 0..n {
                // the compilation right before the one under test is, half of the time, one that is
                // rejected in the middle of a literal / declaration (the last four pool entries)
                let t = if k + 1 == n && rng.chance(1, 2) {
                    let m = self.history_pool.len();
                    self.history_pool[m - 1 - rng.below(4) as usize].clone()
                } else {
                    rng.pick(&self.history_pool).clone()
                };
                let mut env = sc.env.clone();
                env.compile_layout_seed = rng.next_u64();
                let _ = crate::engine::compile(&t, &env);
            }
        }
        sc
    }
    fn judge(&mut self, i: usize, sc: &Scenario, r: Exec, out: &mut JobResult) {
        let obs = match r {
            Exec::CompileError(m) => Obs::Rejected(m),
            Exec::CompilePanic(p) => Obs::Panicked(p),
            Exec::Run(r) => {
                out.absorb_run(&r);
                for f in crate::oracles::o_crash(&r) {
                    out.violate(violation(P, P, f, sc));
                }
                let cc = crate::engine::last_compile_counters();
                if cc.layout_seeds_ct > 0 && i == 0 {
                    out.probe("compile_time_hash_containers_seeded");
                }
                if cc.id_skips > 0 {
                    out.probe("scope_ids_actually_skipped");
                }
                // second instantiation: same outcomes, same bytes
                // (a program that reads the clock or draws random numbers legitimately differs between runs)
                if r.ops.len() >= 5 && r.counters.unix_reads == 0 && r.counters.rng_words == 0 && r.counters.rng_new == 0 && r.counters.mono_reads == 0 {
                    let seg = |a: usize, b: usize| -> &[u8] {
                        let s = if a == 0 { 0 } else { r.ops[a - 1].out_len };
                        &r.out[s.min(r.out.len())..r.ops[b].out_len.min(r.out.len())]
                    };
                    let same = r.ops[0].outcome == r.ops[3].outcome && r.ops[1].outcome == r.ops[4].outcome && seg(0, 1) == seg(3, 4);
                    if !same {
                        out.violate(violation(
                            P,
                            P,
                            ("behaviour".into(), "a second instantiation of one compiled program behaves differently from the first".into(),
                             format!("first: {:?} / {:?} wrote {:?}; second: {:?} / {:?} wrote {:?}", r.ops[0].outcome, r.ops[1].outcome, String::from_utf8_lossy(seg(0, 1)), r.ops[3].outcome, r.ops[4].outcome, String::from_utf8_lossy(seg(3, 4)))),
                            sc,
                        ));
                    }
                    out.probe("instantiated_twice");
                }
                Obs::Accepted { ops: r.ops.iter().map(|o| o.outcome.clone()).collect(), out: r.out.clone() }
            }
        };
        out.count("compilations", 1);
        let with_prelude = crate::engine::scope_prelude_hash() != 0x9e37_79b9_7f4a_7c15;
        if with_prelude {
            if crate::engine::prelude_was_accepted() {
                // the prelude was meant to be rejected; an accepted one legitimately changes the scope
                out.count("scope_prelude_accepted_scenarios_skipped", 1);
                crate::engine::set_scope_prelude(vec![]);
                return;
            }
            out.probe("compiled_after_rejected_texts_on_the_same_scope");
        }
        // identifiers interned by the rejected texts stay in the scope's interner, and some messages print
        // raw symbol numbers: with a same-scope prelude those numbers are not part of what must agree
        let obs = match obs {
            Obs::Rejected(m) if with_prelude => Obs::Rejected(mask_symbol_numbers(&m)),
            o => o,
        };
        crate::engine::set_scope_prelude(vec![]);
        if let Obs::Panicked(p) = &obs {
            out.violate(violation(P, P, ("crash".into(), crash_signature(p), format!("compiler panicked: {p}")), sc));
        }
        let class = match &obs {
            Obs::Rejected(m) => format!("rejected:{}", m.rsplit('[').next().unwrap_or("").trim_end_matches(']')),
            Obs::Accepted { .. } => "accepted".to_string(),
            Obs::Panicked(_) => "panicked".to_string(),
        };
        out.tuples.insert(format!("{}|{}", sc.label, class));
        if sc.seed != 0 {
            out.probe("compiled_after_other_compilations");
        }
        if sc.env.id_skip_seed != 0 {
            out.probe("scope_ids_skipped");
        }
        if i == 0 && sc.label.starts_with("fixed:ok-") {
            let ok = matches!(&obs, Obs::Accepted { ops, .. } if ops.iter().any(|o| matches!(o, Outcome::Value(v) if v == "true")));
            if !ok {
                out.violate(violation(P, P, ("behaviour".into(), format!("{}: compiled program does not behave as its text says", sc.label), format!("{obs:?}").chars().take(300).collect::<String>()), sc));
            }
        }
        match &self.first {
            None => self.first = Some(obs),
            Some(f) => {
                let masked_first;
                let f = match f {
                    Obs::Rejected(m) if with_prelude => {
                        masked_first = Obs::Rejected(mask_symbol_numbers(m));
                        &masked_first
                    }
                    f => f,
                };
                if *f != obs {
                    let what = match (f, &obs) {
                        (Obs::Rejected(a), Obs::Rejected(b)) => {
                            let ca = a.rsplit('[').next().unwrap_or("");
                            let cb = b.rsplit('[').next().unwrap_or("");
                            if ca == cb {
                                format!("error text of one source differs between compilations [{}", ca)
                            } else {
                                format!("error class of one source differs between compilations [{} vs [{}", ca, cb)
                            }
                        }
                        (Obs::Accepted { .. }, Obs::Accepted { .. }) => "behaviour of the compiled program differs between compilations".to_string(),
                        _ => "acceptance of one source differs between compilations".to_string(),
                    };
                    let show = |o: &Obs| match o {
                        Obs::Rejected(m) => format!("rejected: {}", m.chars().take(400).collect::<String>()),
                        Obs::Accepted { ops, out } => format!("accepted: {:?} output {:?}", ops.iter().filter(|o| !matches!(o, Outcome::Unit)).collect::<Vec<_>>(), String::from_utf8_lossy(out).chars().take(120).collect::<String>()),
                        Obs::Panicked(p) => format!("panicked: {p}"),
                    };
                    out.violate(violation(
                        P,
                        P,
                        ("determinism".into(), what, format!("plain environment: {} || environment {{hasher key {}, id skips {}/{}, history {}}}: {}",
                            show(f), sc.env.compile_layout_seed, sc.env.id_skip_seed, sc.env.id_skip_max, sc.seed, show(&obs))),
                        sc,
                    ));
                }
            }
        }
    }
}
