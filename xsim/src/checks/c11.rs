//! C11 — side effects happen only with permission.
//!
//! All effect seams are simulator doubles (writer, wall clock, random source, sleep), so "never
//! touched" is directly observable as zero recorded calls. Effect templates place every
//! effectful builtin in every carrier; each template is run under all permission assignments and
//! its effect trace is compared with the reference trace cut at the first refused site.

use super::violation;
use crate::engine::{perm_default, Limits, Outcome, Perms, RunResult, Scenario, PERM_NAMES};
use crate::job::{Exec, Executor, Job, JobResult, JobSpec};
use crate::oracles::{crash_signature, o_crash, o_uncaught};
use crate::prng::Prng;
use crate::world::{Ev, UnixVal, WFault};
use serde_json::json;

const P: &str = "C11";

// permission indices: now=0 print=1 print_debug=2 random=3 regex=4 sleep=5
pub const SITES: &[(&str, usize, &str)] = &[
    ("display", 1, "display({K})"),
    ("display-prefix", 1, "display({K}, \"\")"),
    ("debug", 2, "debug({K})"),
    ("debug-prefix", 2, "debug({K}, \"dbg:\")"),
    ("unix_now", 0, "if(__std_unix_now() >= 0.0, {K}, {K})"),
    ("now", 0, "if(now().unix() >= 0.0, {K}, {K})"),
    ("sample", 3, "(range(10).sample(2).len() + {K} - 2)"),
    ("shuffle", 3, "([1, 2, 3].shuffle().len() + {K} - 3)"),
    ("shuffle-one", 3, "([1].shuffle().len() + {K} - 1)"),
    ("shuffle-empty", 3, "(cast<Sequence<int>>([]).shuffle().len() + {K})"),
    ("shuffle-sliced-to-one", 3, "([1, 2, 3].take(1).shuffle().len() + {K} - 1)"),
    ("random", 3, "if(random() >= 0.0, {K}, {K})"),
    ("disc-random", 3, "if(uniform_distribution(1, 6).random() >= 1, {K}, {K})"),
    ("disc-sample", 3, "(uniform_distribution(1, 6).sample(3).len() + {K} - 3)"),
    ("cont-sample", 3, "(normal_distribution(0.0, 1.0).sample(2).len() + {K} - 2)"),
    ("random_choices", 3, "([1, 2, 3].random_choices(2).len() + {K} - 2)"),
    ("random_choices-weighted", 3, "([1, 2, 3].random_choices(2, [0.2, 0.3, 0.5]).len() + {K} - 2)"),
    ("sample-long", 3, "(range(1000).sample(2).len() + {K} - 2)"),
    ("sample-long-many", 3, "(range(100000).sample(40).len() + {K} - 40)"),
    ("sample-zero", 3, "(range(10).sample(0).len() + {K})"),
    ("disc-sample-zero", 3, "(uniform_distribution(1, 6).sample(0).len() + {K})"),
    ("cont-sample-zero", 3, "(normal_distribution(0.0, 1.0).sample(0).len() + {K})"),
    ("random_choices-zero", 3, "([1, 2, 3].random_choices(0).len() + {K})"),
    ("sample-counts", 3, "([1, 2, 3].sample(2, [1, 1, 1]).len() + {K} - 2)"),
    ("regex", 4, "if(regex(\"a+b\").search(\"xaab\").has_value(), {K}, {K})"),
    ("regex-long-pattern", 4, "if(regex(\"a+b[0-9]*(x|y)?z{0,3}[^q]\").search(\"xaab12yzz!\").has_value(), {K}, {K})"),
    // a malformed pattern is still handed to the regex compiler: no compilation attempt without the permission
    ("regex-malformed", 4, "if(is_error(regex(\"(a+b\")), {K}, {K})"),
    ("regex-bad-repetition", 4, "if(is_error(regex(\"a{5,2}\")), {K}, {K})"),
    ("display-str", 1, "(display(\"7777\").len() + {K} - 4)"),
    ("display-str-prefix", 1, "(display(\"7777\", \"\").len() + {K} - 4)"),
    ("display-bool-as-int", 1, "if(display({K} > 0 - 1), {K}, {K})"),
    ("debug-str", 2, "(debug(\"7777\").len() + {K} - 4)"),
    ("sleep", 5, "sleep(seconds(0.25), {K})"),
    ("std_sleep", 5, "__std_sleep(0.5, {K})"),
];

/// (name, how often the site is reached at instantiate, at run)
pub const CARRIERS: &[(&str, usize, usize)] = &[
    ("direct", 0, 1),
    ("wrapper", 0, 1),
    ("closure", 0, 1),
    ("seq-map", 0, 2),
    ("gen-filter", 0, 2),
    ("seq-reduce", 0, 2),
    ("default-param", 1, 0),
    ("toplevel-let", 1, 0),
    ("if-taken", 0, 1),
    ("if-untaken", 0, 0),
    ("lazy-unforced", 0, 0),
    ("method-chain", 0, 1),
    ("error-handler", 0, 1),
    // the effect belongs to an element the consumer only steps over on its way to a later one
    ("gen-map-get-later", 0, 1),
    ("gen-map-skip-get", 0, 1),
    ("gen-map-nth-later", 0, 1),
    ("gen-map-last", 0, 2),
];

#[derive(Clone, Debug)]
pub struct Step {
    pub site: usize,
    pub carrier: usize,
}

pub struct Template {
    pub steps: Vec<Step>,
    pub text: String,
    /// permission index of each reached site, in evaluation order, per phase
    pub inst_sites: Vec<usize>,
    pub run_sites: Vec<usize>,
    pub value: i64,
}

pub fn template(steps: Vec<Step>) -> Template {
    let mut decls = String::new();
    let mut exprs = vec![];
    let mut inst_sites = vec![];
    let mut run_sites = vec![];
    let mut value = 0i64;
    for (k, st) in steps.iter().enumerate() {
        let (_, perm, stpl) = SITES[st.site];
        let (cname, n_inst, n_run) = CARRIERS[st.carrier];
        let kval = (k as i64 + 1) * 10;
        let e = stpl.replace("{K}", &kval.to_string());
        let (expr, contributes): (String, i64) = match cname {
            "direct" => (e, kval),
            "wrapper" => {
                decls.push_str(&format!("fn v_w{k}()->int{{ {e} }}\n"));
                (format!("v_w{k}()"), kval)
            }
            "closure" => (format!("((v_x: int)->{{ {e} + v_x }})(0)"), kval),
            "seq-map" => (format!("range(2).map((v_x: int)->{{ {e} }}).to_array().len()"), 2),
            "gen-filter" => (format!("range(2).to_generator().filter((v_x: int)->{{ {e} >= 0 - 999 }}).to_array().len()"), 2),
            "seq-reduce" => (format!("range(2).reduce(0, (v_a: int, v_x: int)->{{ v_a + {e} }})"), 2 * kval),
            "default-param" => {
                decls.push_str(&format!("fn v_df{k}(v_x: int ?= {e})->int{{ v_x }}\n"));
                (format!("v_df{k}()"), kval)
            }
            "toplevel-let" => {
                decls.push_str(&format!("let v_t{k} = {e};\n"));
                (format!("v_t{k}"), kval)
            }
            "if-taken" => (format!("if(true, {e}, 0)"), kval),
            "if-untaken" => (format!("if(false, {e}, 0)"), 0),
            "lazy-unforced" => (format!("range(2).map((v_x: int)->{{ {e} }}).len()"), 2),
            "method-chain" => (format!("({e}).add(0).mul(1)"), kval),
            "error-handler" => (format!("if_error({e}, 0 - 1)"), kval),
            "gen-map-get-later" => (format!("range(3).to_generator().map((v_x: int)->{{ if(v_x == 0, {e}, 7) }}).get(2)"), 7),
            "gen-map-skip-get" => (format!("range(3).to_generator().map((v_x: int)->{{ if(v_x == 0, {e}, 7) }}).skip(1).get(0)"), 7),
            "gen-map-nth-later" => (format!("range(3).to_generator().map((v_x: int)->{{ if(v_x == 0, {e}, 7) }}).nth(1, (v_y: int)->{{ v_y == 7 }}).value()"), 7),
            "gen-map-last" => (format!("range(2).to_generator().map((v_x: int)->{{ {e} }}).last()"), kval),
            other => panic!("unknown carrier {other}"),
        };
        value += contributes;
        exprs.push(expr);
        for _ in 0..n_inst {
            inst_sites.push(perm);
        }
        for _ in 0..n_run {
            run_sites.push(perm);
        }
    }
    let text = format!("{decls}fn main()->int{{ {} }}\n", exprs.join(" + "));
    Template { steps, text, inst_sites, run_sites, value }
}

fn encode(steps: &[Step]) -> String {
    steps.iter().map(|s| format!("{}/{}", SITES[s.site].0, CARRIERS[s.carrier].0)).collect::<Vec<_>>().join("+")
}

fn decode(s: &str) -> Option<Vec<Step>> {
    s.split('+')
        .map(|p| {
            let (a, b) = p.split_once('/')?;
            Some(Step { site: SITES.iter().position(|x| x.0 == a)?, carrier: CARRIERS.iter().position(|x| x.0 == b)? })
        })
        .collect()
}

pub fn make(spec: &JobSpec, ex: &mut Executor, out: &mut JobResult) -> Option<Box<dyn Job>> {
    match spec.kind.as_str() {
        "template" => {
            let steps = decode(spec.params.get("steps")?.as_str()?)?;
            let assignments = spec.params.get("assignments").and_then(|v| v.as_str()).unwrap_or("binary");
            TemplateJob::new(steps, assignments, spec.seed, ex, out).map(|j| Box::new(j) as Box<dyn Job>)
        }
        "faults" => {
            let steps = decode(spec.params.get("steps")?.as_str()?)?;
            FaultJob::new(steps, ex, out).map(|j| Box::new(j) as Box<dyn Job>)
        }
        "doc-seams" => Some(Box::new(DocSeamJob::new(spec, out))),
        "single" if spec.params.get("scenario").and_then(|s| s.get("label")).and_then(|l| l.as_str()).map_or(false, |l| l.starts_with("C11 doc-seams ")) => {
            let sc: Scenario = serde_json::from_value(spec.params.get("scenario")?.clone()).ok()?;
            Some(Box::new(DocSeamJob { scenarios: vec![sc] }))
        }
        "single" => {
            let sc: Scenario = serde_json::from_value(spec.params.get("scenario")?.clone()).ok()?;
            let mut it = sc.label.split_whitespace();
            let (_, kind, enc) = (it.next()?, it.next()?, it.next()?);
            let steps = decode(enc)?;
            if kind == "faults" {
                let mut j = FaultJob::new(steps, ex, out)?;
                j.scenarios = vec![sc];
                Some(Box::new(j))
            } else {
                let mut j = TemplateJob::new(steps, "none", spec.seed, ex, out)?;
                j.assignments = vec![(sc.perms, sc.perm_ops.clone())];
                Some(Box::new(j))
            }
        }
        k => {
            out.notes.push(format!("C11: unknown job kind {k}"));
            None
        }
    }
}

/// effect-relevant projection of the event log
fn effects(log: &[Ev]) -> Vec<String> {
    log.iter()
        .filter_map(|e| match e {
            Ev::Perm { id, ok } => Some(format!("perm:{id}:{ok}")),
            Ev::Write { len, res } => Some(format!("write:{len}:{res}")),
            Ev::Flush => Some("flush".to_string()),
            Ev::UnixRead => Some("unix".to_string()),
            Ev::Sleep(ns) => Some(format!("sleep:{ns}")),
            Ev::RngNew => Some("rng-new".to_string()),
            Ev::RngWord => Some("rng-word".to_string()),
            Ev::Host(i) => Some(format!("host:{i}")),
            _ => None,
        })
        .collect()
}

struct TemplateJob {
    tpl: Template,
    label: String,
    reference: RunResult,
    ref_effects: Vec<String>,
    assignments: Vec<(Perms, Vec<(usize, bool)>)>,
}

fn all_on() -> Perms {
    [Some(true); 6]
}

impl TemplateJob {
    fn new(steps: Vec<Step>, assignments: &str, seed: u64, ex: &mut Executor, out: &mut JobResult) -> Option<Self> {
        let tpl = template(steps);
        let label = format!("C11 tpl {}", encode(&tpl.steps));
        let mut sc = Scenario::standard(&tpl.text, Limits::calibration());
        sc.perms = all_on();
        sc.env.record = true;
        sc.label = label.clone();
        let reference = match ex.exec(&sc) {
            Exec::Run(r) => r,
            Exec::CompileError(m) => {
                out.notes.push(format!("{label}: template does not compile: {m}"));
                out.count("template_compile_failures", 1);
                return None;
            }
            Exec::CompilePanic(p) => {
                out.violate(violation(P, P, ("crash".into(), crash_signature(&p), p.clone()), &sc));
                return None;
            }
        };
        out.absorb_run(&reference);
        for f in o_crash(&reference) {
            out.violate(violation(P, P, f, &sc));
        }
        // the template's declared sites must be what the reference run reaches, in order
        let mut seen_inst = vec![];
        let mut seen_run = vec![];
        let mut phase = 0;
        for e in &reference.log {
            match e {
                Ev::Host(i) => phase = *i,
                Ev::Perm { id, .. } => {
                    let idx = PERM_NAMES.iter().position(|n| n == id).unwrap_or(9);
                    if phase == 0 {
                        seen_inst.push(idx)
                    } else {
                        seen_run.push(idx)
                    }
                }
                _ => {}
            }
        }
        if seen_inst != tpl.inst_sites || seen_run != tpl.run_sites {
            let missing: Vec<&str> = tpl.inst_sites.iter().chain(tpl.run_sites.iter()).filter(|p| !seen_inst.contains(p) && !seen_run.contains(p)).map(|p| PERM_NAMES[*p]).collect();
            out.violate(violation(
                P,
                P,
                ("sites".into(), format!("effect reached without the expected permission check ({})", if missing.is_empty() { "order/count".to_string() } else { missing.join(",") }),
                 format!("template reaches sites inst={:?} run={:?} (permission indices), the run checked inst={seen_inst:?} run={seen_run:?}", tpl.inst_sites, tpl.run_sites)),
                &sc,
            ));
        }
        if *reference.main_outcome() != Outcome::Value(tpl.value.to_string()) {
            out.notes.push(format!("{label}: reference value {:?}, template says {}", reference.main_outcome(), tpl.value));
        }
        let ref_effects = effects(&reference.log);
        let mut asg: Vec<(Perms, Vec<(usize, bool)>)> = vec![];
        if assignments == "binary" || assignments == "ternary" {
            for m in 0..64u32 {
                let mut p: Perms = [None; 6];
                for (i, slot) in p.iter_mut().enumerate() {
                    *slot = Some(m & (1 << i) != 0);
                }
                asg.push((p, vec![]));
            }
        }
        if assignments == "ternary" {
            for m in 0..729u32 {
                let mut p: Perms = [None; 6];
                let mut x = m;
                let mut has_unset = false;
                for slot in p.iter_mut() {
                    *slot = match x % 3 {
                        0 => {
                            has_unset = true;
                            None
                        }
                        1 => Some(true),
                        _ => Some(false),
                    };
                    x /= 3;
                }
                if has_unset {
                    asg.push((p, vec![]));
                }
            }
        } else if assignments == "binary" {
            // documented defaults: everything unset, plus seeded partially-unset assignments
            asg.push(([None; 6], vec![]));
            let mut rng = Prng::new(seed);
            for _ in 0..8 {
                let mut p: Perms = [None; 6];
                for slot in p.iter_mut() {
                    *slot = match rng.below(3) {
                        0 => None,
                        1 => Some(true),
                        _ => Some(false),
                    };
                }
                asg.push((p, vec![]));
            }
        }
        if assignments == "binary" || assignments == "ternary" {
            // the host changes its mind: allow then forbid, forbid then allow, per permission,
            // on top of an all-on / all-unset / all-off base
            for i in 0..6 {
                for (first, second) in [(true, false), (false, true)] {
                    for base in [Some(true), None, Some(false)] {
                        asg.push(([base; 6], vec![(i, first), (i, second)]));
                    }
                }
                asg.push(([None; 6], vec![(i, true), (i, true), (i, false), (i, false)]));
            }
            // the order in which the host makes its allow / forbid calls is its own business: seeded on/off
            // assignments made through calls in a seeded order (the `perms` array is always applied in
            // declaration order), some permissions set twice
            let mut rng = Prng::new(seed ^ 0x6f72_6465_72);
            for _ in 0..(if assignments == "ternary" { 96 } else { 24 }) {
                let mut calls: Vec<(usize, bool)> = vec![];
                for i in 0..6 {
                    if rng.below(5) != 0 {
                        calls.push((i, rng.below(2) == 0));
                    }
                }
                if rng.chance(1, 3) && !calls.is_empty() {
                    let again = calls[rng.below(calls.len() as u64) as usize].0;
                    calls.push((again, rng.below(2) == 0));
                }
                rng.shuffle(&mut calls);
                asg.push(([None; 6], calls));
            }
        }
        if out.samples.len() < 2 {
            out.samples.push(json!({"kind": "template", "steps": encode(&tpl.steps), "program": tpl.text, "sites_at_instantiate": tpl.inst_sites.iter().map(|p| PERM_NAMES[*p]).collect::<Vec<_>>(),
                "sites_at_run": tpl.run_sites.iter().map(|p| PERM_NAMES[*p]).collect::<Vec<_>>(), "assignments": asg.len(), "reference_effect_trace": ref_effects}));
        }
        Some(TemplateJob { tpl, label, reference, ref_effects, assignments: asg })
    }
}

fn is_on(p: &Perms, i: usize) -> bool {
    p[i].unwrap_or(perm_default(i))
}

/// independent of any hook: an effect seam was touched although its permission is off
fn seam_invariants(sc: &Scenario, r: &RunResult) -> Vec<(String, String)> {
    seam_invariants_with(sc, r, true)
}

/// `classify_lines`: tell display output from debug output by its shape (only sound for the effect templates, whose displays print bare integers)
fn seam_invariants_with(sc: &Scenario, r: &RunResult, classify_lines: bool) -> Vec<(String, String)> {
    let mut v = vec![];
    let c = &r.counters;
    if !is_on(&sc.effective_perms(), 0) && c.unix_reads > 0 {
        v.push(("clock read although NOW is forbidden".to_string(), format!("{} reads of the injected time provider", c.unix_reads)));
    }
    if !is_on(&sc.effective_perms(), 3) && (c.rng_new > 0 || c.rng_words > 0) {
        v.push(("random source touched although RANDOM is forbidden".to_string(), format!("{} constructions, {} words drawn", c.rng_new, c.rng_words)));
    }
    if !is_on(&sc.effective_perms(), 5) && c.sleeps > 0 {
        v.push(("slept although SLEEP is forbidden".to_string(), format!("{} sleeps", c.sleeps)));
    }
    let text = String::from_utf8_lossy(&r.out).to_string();
    let is_display_line = |l: &str| l.chars().all(|ch| ch.is_ascii_digit()) || l == "true" || l == "false";
    let digit_lines = text.lines().filter(|l| !l.is_empty() && is_display_line(l)).count();
    let other_lines = text.lines().filter(|l| !l.is_empty() && !is_display_line(l)).count();
    if classify_lines && !is_on(&sc.effective_perms(), 1) && digit_lines > 0 {
        v.push(("display wrote although PRINT is forbidden".to_string(), format!("output {text:?}")));
    }
    if classify_lines && !is_on(&sc.effective_perms(), 2) && other_lines > 0 {
        v.push(("debug wrote although PRINT_DEBUG is forbidden".to_string(), format!("output {text:?}")));
    }
    if !is_on(&sc.effective_perms(), 1) && !is_on(&sc.effective_perms(), 2) && (c.writes > 0 || c.flushes > 0) {
        v.push(("writer touched although PRINT and PRINT_DEBUG are forbidden".to_string(), format!("{} writes, {} flushes", c.writes, c.flushes)));
    }
    v
}

impl Job for TemplateJob {
    fn len(&self) -> usize {
        self.assignments.len()
    }
    fn scenario(&mut self, i: usize) -> Scenario {
        let mut sc = Scenario::standard(&self.tpl.text, Limits::calibration());
        sc.perms = self.assignments[i].0;
        sc.perm_ops = self.assignments[i].1.clone();
        sc.env.record = true;
        sc.label = self.label.clone();
        sc
    }
    fn judge(&mut self, _i: usize, sc: &Scenario, r: Exec, out: &mut JobResult) {
        let Exec::Run(r) = r else { return };
        out.absorb_run(&r);
        for f in o_crash(&r) {
            out.violate(violation(P, P, f, sc));
        }
        for f in o_uncaught(&r) {
            out.violate(violation(P, P, f, sc));
        }
        for p in &r.problems {
            if p.starts_with("permission:") {
                out.violate(violation(P, P, ("defaults".into(), "permission check disagrees with the configured/default value".into(), p.clone()), sc));
            }
        }
        for (sig, detail) in seam_invariants(sc, &r) {
            out.violate(violation(P, P, ("seam".into(), sig, detail), sc));
        }
        // prediction from the template's declared sites
        let inst_off = self.tpl.inst_sites.iter().position(|p| !is_on(&sc.effective_perms(), *p));
        let run_off = self.tpl.run_sites.iter().position(|p| !is_on(&sc.effective_perms(), *p));
        let (want, cut): (Outcome, Option<usize>) = if let Some(i) = inst_off {
            (Outcome::Violation(format!("PermissionError(\"{}\")", PERM_NAMES[self.tpl.inst_sites[i]])), Some(i))
        } else if let Some(i) = run_off {
            (Outcome::Violation(format!("PermissionError(\"{}\")", PERM_NAMES[self.tpl.run_sites[i]])), Some(self.tpl.inst_sites.len() + i))
        } else {
            (self.reference.main_outcome().clone(), None)
        };
        let got = r.main_outcome().clone();
        let sites = encode(&self.tpl.steps);
        if got != want {
            let what = match (&got, &want) {
                (Outcome::Value(_), Outcome::Violation(_)) | (Outcome::Error(_), Outcome::Violation(_)) => "effect allowed although its permission is off",
                (Outcome::Violation(_), Outcome::Value(_)) => "permission violation although every reached permission is on",
                (Outcome::Violation(_), Outcome::Violation(_)) => "permission violation names the wrong permission",
                _ => "wrong outcome",
            };
            out.violate(violation(P, P, ("permission".into(), format!("{what} ({sites})"), format!("perms {:?} then {:?}: expected {want:?}, got {got:?}", sc.perms, sc.perm_ops)), sc));
        }
        // effect trace: the reference trace up to the refused site, then the refusal
        let got_fx = effects(&r.log);
        let mut want_fx = vec![];
        let mut seen = 0usize;
        for e in &self.ref_effects {
            if e.starts_with("perm:") {
                if Some(seen) == cut {
                    let id = e.split(':').nth(1).unwrap_or("");
                    want_fx.push(format!("perm:{id}:false"));
                    break;
                }
                seen += 1;
            }
            want_fx.push(e.clone());
        }
        // host markers after a violation still appear (drops); compare up to the cut only
        let got_cmp: Vec<String> = if cut.is_some() { got_fx.iter().take(want_fx.len()).cloned().collect() } else { got_fx.clone() };
        let tail_has_effects = cut.is_some() && got_fx.iter().skip(want_fx.len()).any(|e| !e.starts_with("host:"));
        if got_cmp != want_fx || tail_has_effects {
            out.violate(violation(
                P,
                P,
                ("effects".into(), format!("effect trace differs from the reference cut at the first refused site ({sites})"),
                 format!("perms {:?}: got {:?}, expected {:?}", sc.perms, got_fx, want_fx)),
                sc,
            ));
        }
        out.tuples.insert(format!("{sites}|{:?}{:?}|{}", sc.perm_ops, sc.perms.map(|p| match p { None => 'u', Some(true) => '1', Some(false) => '0' }).iter().collect::<String>(), got.class()));
        if cut.is_some() {
            out.probe("refused_site");
        }
        if inst_off.is_some() {
            out.probe("refused_at_instantiate");
        }
        if sc.perms.iter().any(|p| p.is_none()) {
            out.probe("unset_permission_default_used");
        }
        if !sc.perm_ops.is_empty() {
            out.probe("permission_changed_after_being_set");
        }
    }
}

// ------------------------------------------------------------------ seam faults on effect templates

struct FaultJob {
    label: String,
    reference: RunResult,
    scenarios: Vec<Scenario>,
}

impl FaultJob {
    fn new(steps: Vec<Step>, ex: &mut Executor, out: &mut JobResult) -> Option<Self> {
        let tpl = template(steps);
        let label = format!("C11 faults {}", encode(&tpl.steps));
        let mut sc = Scenario::standard(&tpl.text, Limits::calibration());
        sc.perms = all_on();
        sc.env.record = true;
        sc.label = label.clone();
        let reference = match ex.exec(&sc) {
            Exec::Run(r) => r,
            _ => return None,
        };
        out.absorb_run(&reference);
        let mut scenarios = vec![];
        let base = {
            let mut b = sc.clone();
            b.env.record = false;
            b
        };
        let writes = reference.counters.writes;
        for w in 0..writes {
            for f in [WFault::Error, WFault::Zero, WFault::Interrupted, WFault::Short(1)] {
                let mut s = base.clone();
                s.env.writer = vec![(w, f)];
                scenarios.push(s);
            }
        }
        for r in 0..reference.counters.unix_reads {
            for v in [UnixVal::Nan, UnixVal::PosInf, UnixVal::NegInf, UnixVal::Finite(-1.0e18), UnixVal::Finite(1.0e300), UnixVal::Finite(0.0), UnixVal::Finite(-0.0), UnixVal::Finite(253_402_300_800.0)] {
                let mut s = base.clone();
                s.env.unix_plan = vec![(r, v)];
                scenarios.push(s);
            }
            let mut s = base.clone();
            s.env.unix_step = -1000.0;
            scenarios.push(s);
        }
        if reference.counters.rng_new > 0 {
            for kind in [0u8, 1u8] {
                for n in [1u32, 2, 8, 64] {
                    let mut s = base.clone();
                    s.env.rng_extreme_words = n;
                    s.env.rng_extreme_kind = kind;
                    scenarios.push(s);
                }
            }
            for seed in [0u64, 1, u64::MAX] {
                let mut s = base.clone();
                s.env.rng_seed = seed;
                scenarios.push(s);
            }
        }
        Some(FaultJob { label, reference, scenarios })
    }
}

fn float_dump_nonfinite(d: &str) -> bool {
    // dumps render floats as f<16 hex digits of the bits>
    let bytes = d.as_bytes();
    let mut i = 0;
    while i + 17 <= bytes.len() {
        if bytes[i] == b'f' && bytes[i + 1..i + 17].iter().all(|b| b.is_ascii_hexdigit()) {
            if let Ok(bits) = u64::from_str_radix(&d[i + 1..i + 17], 16) {
                if (bits >> 52) & 0x7ff == 0x7ff {
                    return true;
                }
            }
            i += 17;
        } else {
            i += 1;
        }
    }
    false
}

impl Job for FaultJob {
    fn len(&self) -> usize {
        self.scenarios.len()
    }
    fn scenario(&mut self, i: usize) -> Scenario {
        let mut s = self.scenarios[i].clone();
        s.label = self.label.clone();
        s
    }
    fn judge(&mut self, _i: usize, sc: &Scenario, r: Exec, out: &mut JobResult) {
        let Exec::Run(r) = r else { return };
        out.absorb_run(&r);
        for f in o_crash(&r) {
            out.violate(violation(P, P, f, sc));
        }
        for f in o_uncaught(&r) {
            out.violate(violation(P, P, f, sc));
        }
        let got = r.main_outcome().clone();
        let sites = self.label.split_whitespace().nth(2).unwrap_or("").to_string();
        let hard_writer_fault = sc.env.writer.iter().any(|(_, f)| matches!(f, WFault::Error | WFault::Zero));
        if !sc.env.writer.is_empty() {
            if hard_writer_fault {
                if got.violation_kind() != Some("OutputFailure") {
                    out.violate(violation(P, P, ("seam".into(), format!("failed write did not end in OutputFailure ({sites})"), format!("writer plan {:?}: got {got:?}", sc.env.writer)), sc));
                }
                if !self.reference.out.starts_with(&r.out) {
                    out.violate(violation(P, P, ("seam".into(), format!("output after a failed write is not a prefix of the fault-free output ({sites})"), format!("{:?}", String::from_utf8_lossy(&r.out))), sc));
                }
                out.probe("write_fault_to_output_failure");
            } else {
                if got != *self.reference.main_outcome() || r.out != self.reference.out {
                    out.violate(violation(P, P, ("seam".into(), format!("EINTR / short write is not transparent ({sites})"), format!("writer plan {:?}: got {got:?}, output {:?}", sc.env.writer, String::from_utf8_lossy(&r.out))), sc));
                }
                out.probe("soft_write_fault_transparent");
            }
        }
        if !sc.env.unix_plan.is_empty() || sc.env.unix_step < 0.0 {
            match &got {
                Outcome::Value(d) => {
                    if float_dump_nonfinite(d) {
                        out.violate(violation(P, P, ("seam".into(), "non-finite clock value became a float".into(), format!("unix plan {:?}: {d}", sc.env.unix_plan)), sc));
                    }
                }
                Outcome::Error(_) => out.probe("bad_clock_value_became_error"),
                other => out.violate(violation(P, P, ("seam".into(), format!("bad clock value ended in {}", other.class()), format!("unix plan {:?}: {other:?}", sc.env.unix_plan)), sc)),
            }
            out.probe("clock_fault_runs");
        }
        if sc.env.rng_extreme_words > 0 || sc.env.rng_seed != 7 {
            if !matches!(got, Outcome::Value(_) | Outcome::Error(_)) {
                out.violate(violation(P, P, ("seam".into(), format!("extreme random words ended in {}", got.class()), format!("{got:?}")), sc));
            }
            out.probe("rng_fault_runs");
        }
        out.tuples.insert(format!("{}|w{:?}|u{:?}|r{}:{}|{}", sites, sc.env.writer, sc.env.unix_plan, sc.env.rng_extreme_words, sc.env.rng_extreme_kind, got.class()));
    }
}

// ------------------------------------------------------------------ every documented function under forbidden permissions

/// Every function the book documents, called with sample arguments (its lazy result consumed),
/// with all permissions forbidden, with each single permission forbidden, and with none set:
/// whatever the function is, no effect seam may be touched whose permission is off, and a
/// refusal is the outcome the host receives. This does not depend on my list of effect sites.
struct DocSeamJob {
    scenarios: Vec<Scenario>,
}

impl DocSeamJob {
    fn new(spec: &JobSpec, out: &mut JobResult) -> Self {
        let part = spec.params.get("part").and_then(|v| v.as_u64()).unwrap_or(0) as usize;
        let parts = spec.params.get("parts").and_then(|v| v.as_u64()).unwrap_or(1) as usize;
        let (calls, _, _) = crate::docsig::calls();
        let mut scenarios = vec![];
        for (ci, c) in calls.iter().enumerate() {
            if ci % parts != part {
                continue;
            }
            let text = crate::docsig::forcing_program(&c.call, &c.ret);
            let mut assignments: Vec<(String, Perms)> = vec![("all-forbidden".into(), [Some(false); 6]), ("unset".into(), [None; 6])];
            for i in 0..6 {
                let mut p = [Some(true); 6];
                p[i] = Some(false);
                assignments.push((format!("only-{}-forbidden", PERM_NAMES[i]), p));
            }
            for (name, perms) in assignments {
                // finite limits: some sample calls are endless by design (successors_until(.., some))
                let mut sc = Scenario::standard(&text, super::c10::live_limits());
                sc.perms = perms;
                sc.label = format!("C11 doc-seams {} {} {}", c.label, name, c.call);
                scenarios.push(sc);
            }
        }
        out.count("doc_seam_cases", scenarios.len() as u64);
        DocSeamJob { scenarios }
    }
}

impl Job for DocSeamJob {
    fn len(&self) -> usize {
        self.scenarios.len()
    }
    fn scenario(&mut self, i: usize) -> Scenario {
        self.scenarios[i].clone()
    }
    fn judge(&mut self, _i: usize, sc: &Scenario, r: Exec, out: &mut JobResult) {
        let r = match r {
            Exec::Run(r) => r,
            Exec::CompileError(_) => {
                out.count("doc_seam_not_compiling", 1);
                return;
            }
            Exec::CompilePanic(p) => {
                out.violate(violation(P, P, ("crash".into(), crate::oracles::crash_signature(&p), format!("compiler panicked: {p}")), sc));
                return;
            }
        };
        out.absorb_run(&r);
        for f in o_crash(&r) {
            out.violate(violation(P, P, f, sc));
        }
        for (what, detail) in seam_invariants_with(sc, &r, false) {
            out.violate(violation(P, P, ("seam".into(), what, detail), sc));
        }
        for f in o_uncaught(&r) {
            out.violate(violation(P, P, f, sc));
        }
        // every permission event agrees with the assignment in force
        for e in &r.log {
            if let Ev::Perm { id, ok } = e {
                let allowed = PERM_NAMES.iter().position(|n| n == id).map(|i| is_on(&sc.effective_perms(), i));
                if let Some(allowed) = allowed {
                    if allowed != *ok {
                        out.violate(violation(P, P, ("permission".into(), format!("permission {id} answered {ok} although the assignment says {allowed}"), sc.label.clone()), sc));
                    }
                }
            }
        }
        let refused = r.ops.iter().any(|o| o.outcome.violation_kind().map_or(false, |k| k.starts_with("PermissionError")));
        out.probe("doc_seam_runs");
        if refused {
            out.probe("doc_seam_refused");
        }
        let name = sc.label.split_whitespace().nth(2).unwrap_or("");
        out.tuples.insert(format!("doc-seam|{name}|{}|{}", sc.label.split_whitespace().nth(3).unwrap_or(""), if refused { "refused" } else { "ran" }));
    }
}
