//! C09 — size limit enforced; memory accounting balances.
//!
//! Fault enumeration: the size limit is placed at every prefix-maximum of the accounted total of
//! the fault-free run (those are exactly the allocations/preflights a real limit can refuse), so
//! the failure lands on every distinct allocation point the program reaches. The conservation
//! model lives in the observer (`world.rs`) and is independent of xray's own counter.

use super::{prepare_base, scenario_from_params, violation, Base};
use crate::engine::{HostOp, Limits, Outcome, Scenario, BIG};
use crate::job::{Exec, Executor, Job, JobResult, JobSpec};
use crate::oracles::{crash_signature, o_balance, o_crash, o_transparent, o_uncaught};
use crate::prng::Prng;
use crate::world::Ev;
use serde_json::json;

const P: &str = "C09";

pub fn make(spec: &JobSpec, ex: &mut Executor, out: &mut JobResult) -> Option<Box<dyn Job>> {
    match spec.kind.as_str() {
        "size_sweep" => SizeSweep::new(spec, ex, out).map(|j| Box::new(j) as Box<dyn Job>),
        "history" => History::new(spec, ex, out).map(|j| Box::new(j) as Box<dyn Job>),
        "other_faults" => OtherFaults::new(spec, ex, out).map(|j| Box::new(j) as Box<dyn Job>),
        "payload" => Payload::new(spec).map(|j| Box::new(j) as Box<dyn Job>),
        "single" => Single::new(spec, ex, out).map(|j| Box::new(j) as Box<dyn Job>),
        k => {
            out.notes.push(format!("C09: unknown job kind {k}"));
            None
        }
    }
}

/// candidate limits: for every event that raises the running maximum of the (requested) total to
/// t, the limit t-1 fails exactly there. Returns ascending limits with the index of the event.
pub fn fault_points(log: &[Ev], skip_events: usize) -> (Vec<(usize, usize, u32)>, usize, usize) {
    let mut max = 0usize;
    let mut pts = vec![];
    let mut n_acct = 0usize;
    let mut peak_alloc = 0usize;
    for ev in log {
        let (t, site, is_alloc) = match ev {
            Ev::Alloc { total, ok: true, site, .. } => (*total, *site, true),
            Ev::Pre { req, total, site, .. } => (total.saturating_add(*req), *site, false),
            _ => continue,
        };
        n_acct += 1;
        if is_alloc && t > peak_alloc {
            peak_alloc = t;
        }
        if t > max {
            max = t;
            if n_acct > skip_events && t > 0 {
                pts.push((t - 1, n_acct - 1, site));
            }
        }
    }
    (pts, max, peak_alloc)
}

fn judge_common(sc: &Scenario, base: &Base, r: &crate::engine::RunResult, out: &mut JobResult) {
    for f in o_crash(r) {
        out.violate(violation(P, P, f, sc));
    }
    for f in o_balance(r) {
        out.violate(violation(P, P, f, sc));
    }
    for f in o_uncaught(r) {
        if f.1.contains("AllocationLimitReached") {
            out.violate(violation(P, P, f, sc));
        }
    }
    for f in o_transparent(sc, &base.reference, r) {
        out.violate(violation(P, P, f, sc));
    }
}

// ------------------------------------------------------------------ size sweep

struct SizeSweep {
    base: Base,
    limits: Vec<(usize, usize, u32)>,
    req_peak: usize,
    alloc_peak: usize,
    first_pass: Option<usize>,
}

impl SizeSweep {
    fn new(spec: &JobSpec, ex: &mut Executor, out: &mut JobResult) -> Option<Self> {
        let sc = scenario_from_params(spec)?;
        let base = prepare_base(P, P, &sc, ex, out)?;
        let skip = spec.params.get("skip_events").and_then(|v| v.as_u64()).unwrap_or(0) as usize;
        let max_points = spec.params.get("max_points").and_then(|v| v.as_u64()).unwrap_or(u64::MAX) as usize;
        let (mut pts, req_peak, alloc_peak) = fault_points(&base.reference.log, skip);
        for f in o_balance(&base.reference) {
            out.violate(violation(P, P, f, &base.sc));
        }
        if pts.len() > max_points {
            // keep every point that introduces a new site, and a seeded sample of the rest
            let mut seen = std::collections::BTreeSet::new();
            let mut keep = vec![];
            let mut rest = vec![];
            for p in pts {
                if seen.insert(p.2) {
                    keep.push(p);
                } else {
                    rest.push(p);
                }
            }
            let mut rng = Prng::new(spec.seed);
            rng.shuffle(&mut rest);
            let room = max_points.saturating_sub(keep.len());
            keep.extend(rest.into_iter().take(room));
            keep.sort();
            pts = keep;
            out.count("sweeps_thinned", 1);
        }
        // boundary limits: peak (passes), peak+1
        pts.push((req_peak, usize::MAX, u32::MAX));
        pts.push((req_peak + 1, usize::MAX, u32::MAX));
        if skip == 0 {
            pts.insert(0, (0, usize::MAX, u32::MAX));
        }
        out.count("fault_points", pts.len() as u64);
        if out.samples.len() < 2 {
            out.samples.push(json!({"kind": "size_sweep", "program": base.sc.label, "limits_tried": pts.len(),
                "first_limits": pts.iter().take(5).map(|p| p.0).collect::<Vec<_>>(), "peak_requested": req_peak, "peak_allocated": alloc_peak}));
        }
        Some(SizeSweep { base, limits: pts, req_peak, alloc_peak, first_pass: None })
    }
}

impl Job for SizeSweep {
    fn len(&self) -> usize {
        self.limits.len()
    }
    fn scenario(&mut self, i: usize) -> Scenario {
        let mut sc = self.base.sc.clone();
        sc.env.record = false;
        sc.limits.size = Some(self.limits[i].0);
        sc
    }
    fn judge(&mut self, i: usize, sc: &Scenario, r: Exec, out: &mut JobResult) {
        let Exec::Run(r) = r else { return };
        out.absorb_run(&r);
        judge_common(sc, &self.base, &r, out);
        let l = self.limits[i].0;
        let failed = r.ops.iter().any(|o| o.outcome.violation_kind() == Some("AllocationLimitReached"));
        if l >= self.req_peak && failed {
            out.violate(violation(
                P,
                P,
                ("limit".into(), "fails although limit >= peak".into(), format!("limit {l} >= peak request {} but the run ended in AllocationLimitReached", self.req_peak)),
                sc,
            ));
        }
        if l < self.alloc_peak && !failed && !r.ops.iter().any(|o| matches!(o.outcome, Outcome::Crash(_) | Outcome::Violation(_))) {
            out.violate(violation(
                P,
                P,
                ("limit".into(), "passes although limit < peak".into(), format!("limit {l} < allocated peak {} but the run completed", self.alloc_peak)),
                sc,
            ));
        }
        if failed {
            if let Some(p) = self.first_pass {
                if l > p {
                    out.violate(violation(
                        P,
                        P,
                        ("monotone".into(), "raising the limit turned a pass into a failure".into(), format!("limit {p} passes, limit {l} fails")),
                        sc,
                    ));
                }
            }
            let site = r.fired_sites.first().cloned().unwrap_or_default();
            let op = r.ops.iter().position(|o| o.outcome.violation_kind().is_some()).unwrap_or(99);
            out.tuples.insert(format!("{}|size|{}|op{}", self.base.sc.label, site, op));
            out.probe("allocation_refused_runs");
            if r.counters.preflight_fail > 0 {
                out.probe("preflight_refused_runs");
            }
        } else if self.first_pass.is_none() {
            self.first_pass = Some(l);
        }
    }
}

// ------------------------------------------------------------------ every other violation kind

/// "also after a run that ended in any violation": the call budget, depth, recursion, search and time limits
/// and output failures placed at their trip points (as in C06's sweeps), judged by the conservation model
/// only: the total balances, returns to its baseline once the results are dropped, and a rerun is unharmed.
struct OtherFaults {
    base: Base,
    points: Vec<crate::sweep::Point>,
}

impl OtherFaults {
    fn new(spec: &JobSpec, ex: &mut Executor, out: &mut JobResult) -> Option<Self> {
        use crate::sweep::Kind;
        let mut sc = scenario_from_params(spec)?;
        sc.ops = super::c06::rerun_ops();
        let base = prepare_base(P, P, &sc, ex, out)?;
        let max = spec.params.get("max_points").and_then(|v| v.as_u64()).unwrap_or(24) as usize;
        let (points, _) = crate::sweep::points(&base, &[Kind::Calls, Kind::Depth, Kind::Recursion, Kind::Search, Kind::Time, Kind::Writer], max, spec.seed);
        out.count("fault_points", points.len() as u64);
        Some(OtherFaults { base, points })
    }
}

impl Job for OtherFaults {
    fn len(&self) -> usize {
        self.points.len()
    }
    fn scenario(&mut self, i: usize) -> Scenario {
        self.points[i].scenario.clone()
    }
    fn judge(&mut self, i: usize, sc: &Scenario, r: Exec, out: &mut JobResult) {
        let Exec::Run(r) = r else { return };
        out.absorb_run(&r);
        for f in o_crash(&r) {
            out.violate(violation(P, P, f, sc));
        }
        for f in o_balance(&r) {
            out.violate(violation(P, P, f, sc));
        }
        // once a run's results are dropped the total is back at the value it had after instantiation
        let baseline = r.ops.first().map(|o| o.accounted);
        for (k, op) in sc.ops.iter().enumerate() {
            if matches!(op, HostOp::DropAllResults) {
                if let (Some(b), Some(res)) = (baseline, r.ops.get(k)) {
                    if res.accounted != b && matches!(r.ops.first().map(|o| &o.outcome), Some(Outcome::Unit)) {
                        out.violate(violation(P, P, ("residue".into(), format!("accounted total does not return to its baseline after a run that ended in a {} fault", self.points[i].kind.name()), format!("host op {k}: {} instead of {b}", res.accounted)), sc));
                        break;
                    }
                }
            }
        }
        if r.ops.iter().any(|o| o.outcome.violation_kind().is_some()) {
            out.probe("balanced_after_other_violation");
            let vk = r.ops.iter().find_map(|o| o.outcome.violation_kind()).unwrap_or("none").to_string();
            out.tuples.insert(format!("{}|{}|{}", self.base.sc.label, self.points[i].kind.name(), vk));
        }
    }
}

// ------------------------------------------------------------------ histories on one runtime

struct History {
    base: Base,
    scenarios: Vec<Scenario>,
}

fn gen_history(rng: &mut Prng, funcs: &[String]) -> Vec<HostOp> {
    let mut ops = vec![HostOp::Instantiate { slot: 0 }];
    let mut scopes = vec![true, false];
    let mut results = 0usize;
    let n = 3 + rng.below(10) as usize;
    for _ in 0..n {
        match rng.below(10) {
            0..=4 => {
                let live: Vec<usize> = (0..2).filter(|s| scopes[*s]).collect();
                if live.is_empty() {
                    ops.push(HostOp::Instantiate { slot: 0 });
                    scopes[0] = true;
                } else {
                    let slot = *rng.pick(&live);
                    ops.push(HostOp::Run { slot, func: rng.pick(funcs).clone() });
                    results += 1;
                }
            }
            5 => {
                if results > 0 {
                    ops.push(HostOp::DropResult { idx: rng.below(results as u64) as usize });
                }
            }
            6 => ops.push(HostOp::DropAllResults),
            7 => {
                let slot = rng.below(2) as usize;
                if !scopes[slot] {
                    ops.push(HostOp::Instantiate { slot });
                    scopes[slot] = true;
                }
            }
            8 => {
                let slot = rng.below(2) as usize;
                if scopes[slot] {
                    ops.push(HostOp::DropScope { slot });
                    scopes[slot] = false;
                }
            }
            _ => ops.push(HostOp::ResetCalls),
        }
    }
    ops
}

impl History {
    fn new(spec: &JobSpec, ex: &mut Executor, out: &mut JobResult) -> Option<Self> {
        let sc = scenario_from_params(spec)?;
        let base = prepare_base(P, P, &sc, ex, out)?;
        let n = spec.params.get("count").and_then(|v| v.as_u64()).unwrap_or(8) as usize;
        let funcs: Vec<String> = spec
            .params
            .get("funcs")
            .and_then(|v| serde_json::from_value(v.clone()).ok())
            .unwrap_or_else(|| vec!["main".to_string()]);
        let (pts, req_peak, _) = fault_points(&base.reference.log, 0);
        let mut rng = Prng::new(spec.seed);
        let mut scenarios = vec![];
        for k in 0..n {
            let mut s = base.sc.clone();
            s.env.record = false;
            s.seed = spec.seed.wrapping_add(k as u64);
            s.ops = gen_history(&mut rng, &funcs);
            // limit: unlimited, or somewhere a second run / second scope will trip
            s.limits.size = match rng.below(4) {
                0 => Some(BIG),
                1 => Some(req_peak + rng.below(2 * req_peak as u64 / 3 + 1) as usize),
                _ => pts.get(rng.below(pts.len().max(1) as u64) as usize).map(|p| p.0).or(Some(BIG)),
            };
            s.label = format!("{} history#{k}", base.sc.label);
            scenarios.push(s);
        }
        if out.samples.len() < 2 {
            if let Some(s) = scenarios.first() {
                out.samples.push(json!({"kind": "history", "program": base.sc.label, "size_limit": s.limits.size, "ops": s.ops}));
            }
        }
        Some(History { base, scenarios })
    }
}

/// oracle for histories: conservation + "dropping a run's results returns the total to what it
/// was before the run" (as long as no scope was created or dropped in between)
fn judge_history(sc: &Scenario, r: &crate::engine::RunResult, out: &mut JobResult) {
    for f in o_crash(r) {
        out.violate(violation(P, P, f, sc));
    }
    for f in o_balance(r) {
        out.violate(violation(P, P, f, sc));
    }
    for f in o_uncaught(r) {
        if f.1.contains("AllocationLimitReached") {
            out.violate(violation(P, P, f, sc));
        }
    }
    // baseline bookkeeping: accounted bytes with no results held depend only on the live scopes
    let mut held = 0usize;
    let mut baseline: Option<usize> = None;
    for (i, op) in sc.ops.iter().enumerate() {
        let Some(res) = r.ops.get(i) else { break };
        match op {
            HostOp::Instantiate { .. } | HostOp::DropScope { .. } => {
                baseline = if held == 0 { Some(res.accounted) } else { None };
            }
            HostOp::Run { .. } | HostOp::GetValue { .. } => {
                if matches!(res.outcome, Outcome::Value(_) | Outcome::Error(_)) {
                    held += 1;
                } else if held == 0 {
                    // a run that ended in a violation leaves nothing behind
                    if let Some(b) = baseline {
                        if res.accounted != b {
                            out.violate(violation(
                                P,
                                P,
                                ("balance".into(), "run that ended in a violation left bytes behind".into(),
                                 format!("host op {i}: accounted {} after the failed run, {} before it", res.accounted, b)),
                                sc,
                            ));
                        }
                    }
                    out.probe("violation_then_baseline_checked");
                }
            }
            HostOp::DropAllResults => {
                held = 0;
                match baseline {
                    Some(b) if res.accounted != b => out.violate(violation(
                        P,
                        P,
                        ("balance".into(), "dropping results does not return to baseline".into(),
                         format!("host op {i}: accounted {} after dropping all results, baseline {}", res.accounted, b)),
                        sc,
                    )),
                    Some(_) => out.probe("baseline_return_checked"),
                    None => baseline = Some(res.accounted),
                }
            }
            HostOp::DropResult { .. } => {
                // may or may not free the last one; conservative: only full drops are checked
            }
            _ => {}
        }
    }
}

impl Job for History {
    fn len(&self) -> usize {
        self.scenarios.len()
    }
    fn scenario(&mut self, i: usize) -> Scenario {
        self.scenarios[i].clone()
    }
    fn judge(&mut self, _i: usize, sc: &Scenario, r: Exec, out: &mut JobResult) {
        let Exec::Run(r) = r else { return };
        out.absorb_run(&r);
        judge_history(sc, &r, out);
        let viol = r.ops.iter().filter(|o| o.outcome.violation_kind().is_some()).count();
        let n_scopes = sc.ops.iter().filter(|o| matches!(o, HostOp::Instantiate { .. })).count();
        out.tuples.insert(format!("{}|history|ops{}|viol{}|scopes{}", self.base.sc.label, sc.ops.len(), viol.min(3), n_scopes.min(3)));
        if viol > 0 && r.ops.iter().skip_while(|o| o.outcome.violation_kind().is_none()).skip(1).any(|o| matches!(o.outcome, Outcome::Value(_))) {
            out.probe("successful_run_after_violation");
        }
        if n_scopes > 1 {
            out.probe("two_scopes_one_runtime");
        }
    }
}

// ------------------------------------------------------------------ payload lower bound

struct Payload {
    cases: Vec<(Scenario, usize)>,
}

impl Payload {
    fn new(spec: &JobSpec) -> Option<Self> {
        let mut cases = vec![];
        let mut rng = Prng::new(spec.seed);
        let sizes: Vec<usize> = vec![0, 1, 7, 64, 1000, 1 + rng.below(5000) as usize, 20000];
        for n in sizes {
            let progs: Vec<(String, String, usize)> = vec![
                (format!("str{n}"), format!("fn v_mk()->str{{ \"x\" * {n} }}"), n),
                (format!("arr{n}"), format!("fn v_mk()->Sequence<int>{{ range({n}).map((v_i: int)->{{v_i*3}}).to_array() }}"), 8 * n),
                (format!("bigint{n}"), format!("fn v_mk()->int{{ 2 ** ({n} * 8) }}"), if n > 16 { n } else { 0 }),
                (format!("tuple_of_str{n}"), format!("fn v_mk()->(str, int){{ (\"y\" * {n}, 3) }}"), n),
                // a non-ASCII string holds its bytes and one offset per character
                (format!("utf8-str{n}"), format!("fn v_mk()->str{{ \"日本\" * {n} }}"), if n > 0 { 6 * n + 8 * 2 * n } else { 0 }),
                (format!("utf8-str-4byte{n}"), format!("fn v_mk()->str{{ \"😀\" * {n} }}"), if n > 0 { 4 * n + 8 * n } else { 0 }),
                (format!("stack{n}"), format!("fn v_mk()->Stack<int>{{ range({n}).reduce(cast<Stack<int>>(stack()), (v_s: Stack<int>, v_i: int)->{{v_s.push(v_i)}}) }}"), 8 * n),
            ];
            // collections built from elements that are already alive: what the collection itself adds
            let shared: Vec<(String, String, usize)> = if n >= 64 && n <= 5000 {
                vec![
                    (format!("set-colliding{n}"), format!("let v_src = range({n}).to_array();\nfn v_mk()->Set<int>{{ set((v_x: int)->{{v_x % 8}}, (v_a: int, v_b: int)->{{v_a == v_b}}).update(v_src) }}"), 8 * n),
                    (format!("set-native{n}"), format!("let v_src = range({n}).to_array();\nfn v_mk()->Set<int>{{ set<int>().update(v_src) }}"), 8 * n),
                    (format!("mapping-colliding{n}"), format!("let v_src = range({n}).to_array();\nfn v_mk()->Mapping<int, int>{{ mapping((v_x: int)->{{v_x % 8}}, (v_a: int, v_b: int)->{{v_a == v_b}}).update(v_src.to_generator().map((v_x: int)->{{(v_x, v_x)}})) }}"), 16 * n),
                    (format!("chain-of-many-parts{n}"), format!("let v_src = [1, 2, 3];\nfn v_mk()->Sequence<int>{{ range({n}).reduce(v_src, (v_acc: Sequence<int>, v_i: int)->{{ v_acc + v_src }}) }}"), 8 * n),
                    (format!("stack-from-sequence{n}"), format!("let v_src = range({n}).to_array();\nfn v_mk()->Stack<int>{{ v_src.to_stack() }}"), 8 * n),
                    (format!("array-from-generator{n}"), format!("let v_src = range({n}).to_array();\nfn v_mk()->Sequence<int>{{ v_src.to_generator().to_array() }}"), 8 * n),
                    // many small native values: each one's own representation (the sequence header) is part of what is alive
                    (format!("many-one-element-arrays{n}"), format!("fn v_mk()->Sequence<Sequence<int>>{{ range({n}).map((v_i: int)->{{ [v_i] }}).to_array() }}"),
                        // per element: the inner array's value cell and header and its one slot, the int's value cell, the outer slot
                        n * (2 * std::mem::size_of::<xray::xvalue::XValue<crate::world::SimWriter, crate::world::SimRng, crate::world::SimClock>>()
                            + std::mem::size_of::<xray::builtin::sequence::XSequence<crate::world::SimWriter, crate::world::SimRng, crate::world::SimClock>>()
                            + 8
                            + 8)),
                    (format!("wide-structs{n}"), format!("struct V_R(v_a: int, v_b: int, v_c: int, v_d: int, v_e: int, v_f: int, v_g: int, v_h: int, v_i: int, v_j: int, v_k: int, v_l: int)\nlet v_one = 1;\nfn v_mk()->Sequence<V_R>{{ range({n}).map((v_x: int)->{{ V_R(v_one, v_one, v_one, v_one, v_one, v_one, v_one, v_one, v_one, v_one, v_one, v_one) }}).to_array() }}"), 12 * 8 * n),
                    (format!("wide-tuples{n}"), format!("let v_one = 1;\nfn v_mk()->Sequence<(int, int, int, int, int, int, int, int)>{{ range({n}).map((v_x: int)->{{ (v_one, v_one, v_one, v_one, v_one, v_one, v_one, v_one) }}).to_array() }}"), 8 * 8 * n),
                    (format!("array-of-shared{n}"), format!("let v_src = range({n}).to_array();\nfn v_mk()->Sequence<int>{{ v_src.map((v_x: int)->{{v_x}}).to_array() }}"), 8 * n),
                ]
            } else {
                vec![]
            };
            for (label, prog, payload) in progs.into_iter().chain(shared.into_iter()) {
                let mut sc = Scenario::standard(&prog, Limits::calibration());
                sc.label = format!("payload:{label}:{payload}");
                sc.ops = vec![
                    HostOp::Instantiate { slot: 0 },
                    HostOp::Run { slot: 0, func: "v_mk".into() },
                    HostOp::DropAllResults,
                    HostOp::DropScope { slot: 0 },
                ];
                cases.push((sc, payload));
            }
        }
        // requests whose byte size saturates the machine word: refused by the limit, never a crash
        for (label, prog) in [
            ("huge-range-push", "fn v_mk()->int{ range(2 ** 62).push(1).len() }"),
            ("huge-range-insert", "fn v_mk()->int{ range(2 ** 62).insert(0, 1).len() }"),
            ("huge-range-to-array", "fn v_mk()->int{ range(2 ** 62).to_array().len() }"),
            ("huge-range-sort", "fn v_mk()->int{ range(2 ** 62).sort().len() }"),
            ("huge-repeat-to-array", "fn v_mk()->int{ [1].repeat(2 ** 62).to_array().len() }"),
            ("huge-string-mul", "fn v_mk()->int{ (\"ab\" * (2 ** 62)).len() }"),
            ("huge-pow", "fn v_mk()->bool{ 3 ** (2 ** 62) > 0 }"),
        ] {
            let mut sc = Scenario::standard(prog, Limits::calibration());
            sc.limits.size = Some(200_000);
            sc.label = format!("payload:{label}:refused");
            sc.ops = vec![
                HostOp::Instantiate { slot: 0 },
                HostOp::Run { slot: 0, func: "v_mk".into() },
                HostOp::DropAllResults,
                HostOp::DropScope { slot: 0 },
            ];
            cases.push((sc, usize::MAX));
        }
        Some(Payload { cases })
    }
}

impl Job for Payload {
    fn len(&self) -> usize {
        self.cases.len()
    }
    fn scenario(&mut self, i: usize) -> Scenario {
        self.cases[i].0.clone()
    }
    fn judge(&mut self, i: usize, sc: &Scenario, r: Exec, out: &mut JobResult) {
        let r = match r {
            Exec::Run(r) => r,
            Exec::CompileError(m) => {
                out.notes.push(format!("{}: template does not compile: {m}", sc.label));
                return;
            }
            Exec::CompilePanic(p) => {
                out.violate(violation(P, P, ("crash".into(), crash_signature(&p), p.clone()), sc));
                return;
            }
        };
        out.absorb_run(&r);
        for f in o_crash(&r) {
            out.violate(violation(P, P, f, sc));
        }
        for f in o_balance(&r) {
            out.violate(violation(P, P, f, sc));
        }
        let payload = self.cases[i].1;
        if payload == usize::MAX {
            let got = r.ops.get(1).map(|o| o.outcome.clone());
            if !matches!(&got, Some(Outcome::Violation(v)) if v == "AllocationLimitReached") {
                out.violate(violation(P, P, ("limit".into(), "a request larger than any limit was not refused".into(), format!("{got:?}")), sc));
            }
            out.probe("saturating_request_refused");
            return;
        }
        judge_payload(sc, &r, payload, out);
    }
}

fn judge_payload(sc: &Scenario, r: &crate::engine::RunResult, payload: usize, out: &mut JobResult) {
    {
        if let (Some(a), Some(b)) = (r.ops.first(), r.ops.get(1)) {
            if matches!(b.outcome, Outcome::Value(_)) {
                let delta = b.accounted.saturating_sub(a.accounted);
                if delta < payload {
                    out.violate(violation(
                        P,
                        P,
                        ("payload".into(), format!("value accounted below its payload ({})", sc.label.split(':').nth(1).unwrap_or("").trim_end_matches(char::is_numeric)),
                         format!("holding the result adds {delta} accounted bytes, payload is {payload}")),
                        sc,
                    ));
                }
                out.tuples.insert(format!("{}|payload", sc.label));
                out.probe("payload_checked");
            } else {
                out.notes.push(format!("{}: unexpected outcome {:?}", sc.label, b.outcome.class()));
            }
        }
    }
}

// ------------------------------------------------------------------ single scenario (replay)

struct Single {
    base: Base,
    sc: Scenario,
}

impl Single {
    fn new(spec: &JobSpec, ex: &mut Executor, out: &mut JobResult) -> Option<Self> {
        let sc: Scenario = scenario_from_params(spec)?;
        let base = prepare_base(P, P, &sc, ex, out)?;
        Some(Single { base, sc })
    }
}

impl Job for Single {
    fn len(&self) -> usize {
        1
    }
    fn scenario(&mut self, _i: usize) -> Scenario {
        self.sc.clone()
    }
    fn judge(&mut self, _i: usize, sc: &Scenario, r: Exec, out: &mut JobResult) {
        let Exec::Run(r) = r else { return };
        out.absorb_run(&r);
        if sc.ops == crate::engine::standard_ops() {
            judge_common(sc, &self.base, &r, out);
        }
        judge_history(sc, &r, out);
        if sc.label.starts_with("payload:") {
            let payload: usize = sc.label.rsplit(':').next().and_then(|p| p.parse().ok()).unwrap_or(0);
            judge_payload(sc, &r, payload, out);
        }
    }
}
