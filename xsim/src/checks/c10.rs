//! C10 — limits bound all work; the time limit stops new calls.
//!
//! (a) simulated clock: the only clock the runtime reads is the simulator's. Time advances at
//!     allocations (slow natives), at sleeps, at reads (jumps) and by host `Advance` ops; the
//!     deadline is re-armed by host `ResetTimeout`. Invariant, judged on frames not on xray's own
//!     check: no user call begins at a simulated time later than timer start + T.
//! (b) bounded liveness: with search, call, size, depth and recursion limits all finite, every
//!     scenario finishes within a CPU budget orders of magnitude above what the limits allow;
//!     a hang or abort is attributed to its scenario by the supervisor and confirmed alone.

use super::{prepare_base, scenario_from_params, violation, Base};
use crate::engine::{HostOp, Limits, Outcome, RunResult, Scenario};
use crate::job::{Exec, Executor, Job, JobResult, JobSpec};
use crate::oracles::{crash_signature, o_count, o_crash, o_uncaught};
use crate::prng::Prng;
use serde_json::json;

const P: &str = "C10";

pub fn make(spec: &JobSpec, ex: &mut Executor, out: &mut JobResult) -> Option<Box<dyn Job>> {
    match spec.kind.as_str() {
        "clock" => ClockJob::new(spec, ex, out).map(|j| Box::new(j) as Box<dyn Job>),
        "pipelines" => Some(Box::new(LiveJob::pipelines(spec))),
        "fixed" => Some(Box::new(LiveJob::fixed(spec))),
        "doc-adversarial" => Some(Box::new(LiveJob::doc_adversarial(spec, out))),
        "single" => {
            let sc: Scenario = scenario_from_params(spec)?;
            if sc.label.starts_with("C10 live") {
                Some(Box::new(LiveJob { scenarios: vec![sc] }))
            } else {
                let base = prepare_base(P, P, &sc, ex, out)?;
                Some(Box::new(ClockJob { base, scenarios: vec![sc] }))
            }
        }
        k => {
            out.notes.push(format!("C10: unknown job kind {k}"));
            None
        }
    }
}

// ------------------------------------------------------------------ (a) simulated clock

/// programs whose callbacks sleep, so that simulated time passes between user calls
pub const CLOCK_PROGRAMS: &[(&str, &str)] = &[
    ("sleep-in-map", "fn v_f(v_x: int)->int{ sleep(seconds(0.001), v_x) + 1 }\nfn main()->int{ range(8).map(v_f).to_array().len() }"),
    ("sleep-in-gen-map", "fn v_f(v_x: int)->int{ sleep(seconds(0.001), v_x) + 1 }\nfn main()->int{ range(8).to_generator().map(v_f).to_array().len() }"),
    ("sleep-in-filter", "fn v_p(v_x: int)->bool{ sleep(seconds(0.001), v_x) % 2 == 0 }\nfn main()->int{ range(8).to_generator().filter(v_p).to_array().len() }"),
    ("sleep-in-reduce", "fn v_a(v_s: int, v_x: int)->int{ sleep(seconds(0.001), v_s + v_x) }\nfn main()->int{ range(8).reduce(0, v_a) }"),
    ("sleep-in-sort-cmp", "fn v_c(v_a: int, v_b: int)->int{ sleep(seconds(0.001), cmp(v_a, v_b)) }\nfn main()->int{ [5, 2, 8, 1, 9, 3].sort(v_c).get(0) }"),
    ("sleep-in-recursion", "fn v_d(v_n: int)->int{ if(v_n == 0, 0, sleep(seconds(0.001), 1) + v_d(v_n - 1)) }\nfn main()->int{ v_d(8) }"),
    ("sleep-in-tail-loop", "fn v_l(v_n: int, v_a: int)->int{ if(v_n == 0, v_a, v_l(v_n - 1, sleep(seconds(0.001), v_a + 1))) }\nfn main()->int{ v_l(8, 0) }"),
    ("sleep-in-mapping-hash", "fn v_h(v_x: int)->int{ sleep(seconds(0.001), v_x % 3) }\nfn v_e(v_a: int, v_b: int)->bool{ v_a == v_b }\nfn main()->int{ mapping(v_h, v_e).set(1, 1).set(2, 2).set(4, 4).set(7, 7).len() }"),
    ("sleep-in-successors", "fn main()->int{ successors(0, (v_x: int)->{ sleep(seconds(0.001), v_x + 1) }).get(6) }"),
    ("sleep-in-take_while", "fn main()->int{ count().take_while((v_x: int)->{ sleep(seconds(0.001), v_x) < 6 }).len() }"),
    ("sleep-in-default", "fn v_f(v_x: int ?= sleep(seconds(0.004), 3))->int{ v_x }\nfn main()->int{ v_f() + v_f(1) }"),
    ("sleep-toplevel", "let v_t = sleep(seconds(0.004), 3);\nfn v_g(v_x: int)->int{ v_x + 1 }\nfn main()->int{ v_g(v_t) + range(3).map(v_g).to_array().len() }"),
    ("sleep-in-dyn-eq", "struct V_S(v_k: int)\nfn eq(v_a: V_S, v_b: V_S)->bool{ sleep(seconds(0.001), v_a::v_k == v_b::v_k) }\nfn main()->bool{ range(6).map((v_i: int)->{V_S(v_i)}).to_array() == range(6).map((v_i: int)->{V_S(v_i)}).to_array() }"),
    ("sleep-in-partial", "fn v_a(v_s: int, v_x: int)->int{ sleep(seconds(0.001), v_s + v_x) }\nfn main()->int{ range(6).map(partial(v_a, 1)).to_array().len() }"),
    ("sleep-in-update_from_keys", "fn main()->int{ mapping<int>().update_from_keys(range(6), (v_k: int)->{ sleep(seconds(0.001), v_k) }, (v_k: int, v_v: int)->{ v_v }).len() }"),
];

struct ClockJob {
    base: Base,
    scenarios: Vec<Scenario>,
}

impl ClockJob {
    fn new(spec: &JobSpec, ex: &mut Executor, out: &mut JobResult) -> Option<Self> {
        let mut sc = scenario_from_params(spec)?;
        sc.perms[5] = Some(true);
        let base = prepare_base(P, P, &sc, ex, out)?;
        let count = spec.params.get("count").and_then(|v| v.as_u64()).unwrap_or(40) as usize;
        let mut rng = Prng::new(spec.seed);
        let nd = crate::sweep::needs(&base.reference.log);
        let slept = base.reference.slept_ns.max(1);
        let mut scenarios = vec![];
        for k in 0..count {
            let mut s = base.sc.clone();
            s.env.record = false;
            s.seed = spec.seed.wrapping_add(k as u64);
            // how simulated time passes in this run
            let mode = rng.below(4);
            let tick = match mode {
                0 => 0,
                1 => 1,
                2 => 1 + rng.below(50),
                _ => 1000,
            };
            s.env.alloc_tick_ns = tick;
            s.env.alloc_tick_every = 1 + rng.below(4);
            s.env.read_tick_ns = rng.below(3);
            let horizon = slept + tick * (nd.allocs as u64 + 1) + 10;
            s.limits.time_ns = Some(rng.below(horizon + horizon / 4));
            if rng.chance(1, 3) {
                let reads = nd.calls as u64 + 2;
                s.env.mono_jumps = vec![(rng.below(reads), rng.below(horizon))];
            }
            // host history: run, maybe advance/reset, run again
            let mut ops = vec![HostOp::Instantiate { slot: 0 }];
            let n = 1 + rng.below(4);
            for _ in 0..n {
                match rng.below(5) {
                    0 => ops.push(HostOp::Advance { ns: rng.below(horizon) }),
                    1 => ops.push(HostOp::ResetTimeout),
                    _ => {}
                }
                ops.push(HostOp::Run { slot: 0, func: "main".into() });
            }
            ops.push(HostOp::DropAllResults);
            ops.push(HostOp::DropScope { slot: 0 });
            s.ops = ops;
            s.label = format!("{} clock#{k}", base.sc.label);
            scenarios.push(s);
        }
        if out.samples.len() < 2 {
            if let Some(s) = scenarios.first() {
                out.samples.push(json!({"kind": "clock", "program": base.sc.label, "time_limit_ns": s.limits.time_ns, "alloc_tick_ns": s.env.alloc_tick_ns,
                    "read_tick_ns": s.env.read_tick_ns, "mono_jumps": s.env.mono_jumps, "ops": s.ops, "reference_sleep_ns": slept}));
            }
        }
        Some(ClockJob { base, scenarios })
    }
}

pub fn o_deadline(r: &RunResult) -> Vec<(String, String, String)> {
    r.problems
        .iter()
        .filter(|p| p.starts_with("deadline:"))
        .map(|p| ("deadline".to_string(), "user call began after the time limit had elapsed".to_string(), p.clone()))
        .collect()
}

fn judge_clock(base: &Base, sc: &Scenario, r: &RunResult, out: &mut JobResult) {
    for f in o_crash(r) {
        out.violate(violation(P, P, f, sc));
    }
    for f in o_deadline(r) {
        out.violate(violation(P, P, f, sc));
    }
    for f in o_uncaught(r) {
        out.violate(violation(P, P, f, sc));
    }
    for f in o_count(sc, r) {
        out.violate(violation(P, P, f, sc));
    }
    // an op that did not hit the deadline returns what the reference returns
    let ref_val = base.reference.ops.iter().find(|o| matches!(o.outcome, Outcome::Value(_) | Outcome::Error(_))).map(|o| o.outcome.clone());
    for (i, op) in r.ops.iter().enumerate() {
        match &op.outcome {
            Outcome::Violation(v) if v != "Timeout" => {
                out.violate(violation(P, P, ("clock".into(), format!("unexpected violation {v} under a time limit only"), format!("host op {i}")), sc));
            }
            Outcome::Value(_) | Outcome::Error(_) => {
                if let Some(rv) = &ref_val {
                    if &op.outcome != rv && !sc.label.contains("script:") {
                        out.violate(violation(P, P, ("clock".into(), "result under a time limit differs from the unlimited run".into(), format!("host op {i}: {:?} vs {:?}", op.outcome, rv)), sc));
                    }
                }
            }
            _ => {}
        }
    }
    let timeouts = r.ops.iter().filter(|o| o.outcome.violation_kind() == Some("Timeout")).count();
    out.tuples.insert(format!("{}|tick{}|to{}|ops{}", base.sc.label, sc.env.alloc_tick_ns.min(2), timeouts.min(3), sc.ops.len()));
    if timeouts > 0 {
        out.probe("timeout_outcomes");
        if r.ops.iter().skip_while(|o| o.outcome.violation_kind().is_none()).skip(1).any(|o| matches!(o.outcome, Outcome::Value(_))) {
            out.probe("run_after_reset_timeout_succeeded");
        }
    }
    if r.counters.sleeps > 0 {
        out.probe("sleep_advanced_simulated_time");
    }
    if !sc.env.mono_jumps.is_empty() {
        out.probe("clock_jump_runs");
    }
    if sc.ops.iter().any(|o| matches!(o, HostOp::Advance { .. })) {
        out.probe("host_advance_runs");
    }
}

impl Job for ClockJob {
    fn len(&self) -> usize {
        self.scenarios.len()
    }
    fn scenario(&mut self, i: usize) -> Scenario {
        self.scenarios[i].clone()
    }
    fn judge(&mut self, _i: usize, sc: &Scenario, r: Exec, out: &mut JobResult) {
        let Exec::Run(r) = r else { return };
        out.absorb_run(&r);
        judge_clock(&self.base, sc, &r, out);
    }
}

// ------------------------------------------------------------------ (b) bounded liveness

/// the host calls main twice without resetting anything: a budget that tripped must stay tripped
pub fn live_ops() -> Vec<HostOp> {
    vec![
        HostOp::Instantiate { slot: 0 },
        HostOp::Run { slot: 0, func: "main".into() },
        HostOp::Run { slot: 0, func: "main".into() },
        HostOp::DropAllResults,
        HostOp::DropScope { slot: 0 },
    ]
}

pub fn live_limits() -> Limits {
    Limits { size: Some(400_000), depth: Some(60), recursion: Some(2_000), ud_call: Some(3_000), search: Some(500), time_ns: None }
}

const HUGE: &str = "1000000000000";

fn int_source(rng: &mut Prng) -> String {
    match rng.below(14) {
        12 | 13 => "[1, 2, 3].to_generator().repeat()".into(),
        0 | 1 => "count().to_generator()".into(),
        2 => format!("range({HUGE}).to_generator()"),
        3 => "range(6).to_generator()".into(),
        4 => "range(0).to_generator()".into(),
        5 => "successors(1, (v_x: int)->{v_x * 2})".into(),
        6 => "range(3).to_generator().repeat()".into(),
        7 => "count().map((v_x: int)->{v_x * v_x}).to_generator()".into(),
        8 => format!("range(3).to_generator().repeat({HUGE})"),
        9 => "count().to_generator().map(neg{int})".into(),
        10 => format!("range(2).repeat({HUGE}).to_generator()"),
        _ => "range(2).repeat().to_generator()".into(),
    }
}

fn big(rng: &mut Prng) -> String {
    match rng.below(5) {
        0 => "0".into(),
        1 => "3".into(),
        2 => "1000".into(),
        _ => HUGE.into(),
    }
}

fn adaptor(rng: &mut Prng, depth: usize) -> String {
    match rng.below(22) {
        0 => ".map(neg{int})".into(),
        1 => ".map((v_x: int)->{v_x + 1})".into(),
        2 => ".filter((v_x: int)->{v_x < 0})".into(),
        3 => ".filter((v_x: int)->{v_x % 1000 == 999})".into(),
        4 => format!(".take({})", big(rng)),
        5 => format!(".skip({})", big(rng)),
        6 => ".take_while((v_x: int)->{v_x > 0 - 5})".into(),
        7 => ".skip_until((v_x: int)->{v_x < 0})".into(),
        8 => ".enumerate().map((v_t: (int, int))->{v_t::item1})".into(),
        9 => format!(".windows({}).map((v_s: Sequence<int>)->{{v_s.len()}})", if rng.chance(1, 3) { "1000000000" } else { "3" }),
        10 => format!(".chunks({}).map((v_s: Sequence<int>)->{{v_s.len()}})", if rng.chance(1, 3) { "1000000000" } else { "3" }),
        11 => ".group().map((v_s: Sequence<int>)->{v_s.len()})".into(),
        12 => ".distinct()".into(),
        13 => ".with_count().map((v_t: (int, int))->{v_t::item1})".into(),
        14 => ".repeat()".into(),
        15 => format!(".repeat({})", big(rng)),
        16 if depth < 2 => format!(" + {}", int_source(rng)),
        17 => ".aggregate((v_a: int, v_b: int)->{v_a + v_b})".into(),
        18 if depth < 2 => ".map((v_x: int)->{range(3).to_generator()}).flatten()".into(),
        19 => ".map(abs{int})".into(),
        20 => ".filter((v_x: int)->{v_x % 2 == 0}).map(neg{int})".into(),
        _ => ".take(50)".into(),
    }
}

fn consumer(rng: &mut Prng) -> (String, &'static str) {
    match rng.below(16) {
        0 => (format!(".get({})", big(rng)), "int"),
        1 => (".len()".into(), "int"),
        2 => (".last()".into(), "int"),
        3 => (".to_array().len()".into(), "int"),
        4 => (format!(".nth({}, (v_x: int)->{{v_x < 0}}).has_value()", big(rng)), "bool"),
        5 => (".reduce((v_a: int, v_b: int)->{v_a + v_b})".into(), "int"),
        6 => (".sum(0)".into(), "int"),
        7 => (".any((v_x: int)->{v_x < 0 - 7})".into(), "bool"),
        8 => (".all((v_x: int)->{v_x > 0 - 7})".into(), "bool"),
        9 => (".first((v_x: int)->{v_x < 0 - 7}).has_value()".into(), "bool"),
        10 => (".contains(0 - 5)".into(), "bool"),
        11 => (".count(0 - 5)".into(), "int"),
        12 => (".max()".into(), "int"),
        13 => (".map((v_x: int)->{v_x.to_str()}).join(\",\").len()".into(), "int"),
        14 => (".mean() > 0.0".into(), "bool"),
        _ => (".get(0)".into(), "int"),
    }
}

fn seq_pipeline(rng: &mut Prng) -> (String, &'static str) {
    let src = match rng.below(8) {
        0 | 1 => "count()".to_string(),
        2 => format!("range({HUGE})"),
        3 => "range(3).repeat()".to_string(),
        4 => format!("([1, 2] * {HUGE})"),
        5 => "count().map((v_x: int)->{v_x * 2})".to_string(),
        6 => format!("range(2).repeat({HUGE})"),
        _ => "count().skip(10)".to_string(),
    };
    let mut s = src;
    for _ in 0..rng.below(3) {
        s.push_str(&match rng.below(10) {
            0 => format!(".skip({})", big(rng)),
            1 => format!(".take({})", big(rng)),
            2 => ".map(neg{int})".to_string(),
            3 => ".reverse()".to_string(),
            4 => ".take_while((v_x: int)->{v_x > 0 - 5})".to_string(),
            5 => ".skip_until((v_x: int)->{v_x < 0})".to_string(),
            6 => format!(" + range({})", big(rng)),
            7 => ".push(1)".to_string(),
            8 => ".enumerate().map((v_t: (int, int))->{v_t::item1})".to_string(),
            _ => ".rpush(1)".to_string(),
        });
    }
    let (c, ty) = match rng.below(16) {
        0 => (format!(".get({})", big(rng)), "int"),
        1 => (".len()".into(), "int"),
        2 => (".to_array().len()".into(), "int"),
        3 => (".nth(0, (v_x: int)->{v_x < 0}).has_value()".into(), "bool"),
        4 => (".sum()".into(), "int"),
        5 => (".contains(0 - 5)".into(), "bool"),
        6 => (".max()".into(), "int"),
        7 => (".sort().get(0)".into(), "int"),
        8 => (".to_str().len()".into(), "int"),
        9 => (".count(0 - 5)".into(), "int"),
        10 => (".reduce(0, (v_a: int, v_b: int)->{v_a + v_b})".into(), "int"),
        11 => (".is_infinite()".into(), "bool"),
        12 => (".median()".into(), "int"),
        13 => (".to_stack().len()".into(), "int"),
        14 => (" == count()".into(), "bool"),
        _ => (".hash() >= 0".into(), "bool"),
    };
    s.push_str(&c);
    (s, ty)
}

pub fn random_pipeline(rng: &mut Prng) -> String {
    if rng.chance(1, 4) {
        let (e, ty) = seq_pipeline(rng);
        return format!("fn main()->{ty}{{ {e} }}\n");
    }
    let mut e = int_source(rng);
    let n = rng.below(5) as usize;
    for d in 0..n {
        e.push_str(&adaptor(rng, d));
    }
    let (c, ty) = consumer(rng);
    format!("fn main()->{ty}{{ ({e}){c} }}\n")
}

/// numeric and structural builtins with adversarial arguments
pub const FIXED: &[(&str, &str)] = &[
    ("pow-huge", "fn main()->bool{ 2 ** (10 ** 9) > 0 }"),
    ("pow-tower", "fn main()->bool{ 10 ** 10 ** 10 > 0 }"),
    ("factorial-huge", "fn main()->bool{ factorial(10 ** 7) > 0 }"),
    ("binom-huge", "fn main()->bool{ binom(10 ** 9, 5 * 10 ** 8) > 0 }"),
    ("binom-mid", "fn main()->bool{ binom(10 ** 6, 10 ** 3) > 0 }"),
    ("multinom", "fn main()->bool{ multinom([10 ** 6, 10 ** 6, 10 ** 6]) > 0 }"),
    ("multinom-two-huge-terms", "fn main()->bool{ multinom([10 ** 8, 10 ** 8]) > 0 }"),
    ("multinom-many-terms", "fn main()->bool{ multinom(range(1, 3000)) > 0 }"),
    ("binom-two-thirds", "fn main()->bool{ binom(3 * 10 ** 8, 10 ** 8) > 0 }"),
    ("str-mul-huge", "fn main()->int{ (\"ab\" * 10 ** 12).len() }"),
    ("seq-mul-huge-to-array", "fn main()->int{ ([1, 2] * 10 ** 12).to_array().len() }"),
    ("range-huge-to-array", "fn main()->int{ range(10 ** 12).to_array().len() }"),
    ("range-huge-sum", "fn main()->bool{ range(10 ** 12).sum() > 0 }"),
    ("range-huge-to_str", "fn main()->int{ range(10 ** 12).to_str().len() }"),
    ("range-huge-eq", "fn main()->bool{ range(10 ** 12) == range(10 ** 12) }"),
    ("range-huge-hash", "fn main()->bool{ range(10 ** 12).hash() >= 0 }"),
    ("range-huge-sort", "fn main()->int{ range(10 ** 12).sort().get(0) }"),
    ("range-huge-reverse-get", "fn main()->int{ range(10 ** 12).reverse().get(0) }"),
    ("range-huge-sample", "fn main()->int{ range(10 ** 12).sample(10 ** 9).len() }"),
    ("range-huge-shuffle", "fn main()->int{ range(10 ** 9).shuffle().len() }"),
    ("digits-base1", "fn main()->int{ digits(5, 1).len() }"),
    ("digits-huge", "fn main()->int{ digits(10 ** 100000, 10).len() }"),
    ("to_str-huge", "fn main()->int{ (10 ** 100000).to_str().len() }"),
    ("gcd-huge", "fn main()->bool{ gcd(10 ** 5000 + 1, 10 ** 4999 + 7) > 0 }"),
    ("ceil_root-huge", "fn main()->bool{ ceil_root(10 ** 2000, 3) > 0 }"),
    ("combinations-huge", "fn main()->int{ range(100).combinations(50).len() }"),
    ("combinations-get", "fn main()->int{ range(100).combinations(50).get(10 ** 20).len() }"),
    ("permutations-huge", "fn main()->int{ range(30).permutations().len() }"),
    ("permutations-to-array", "fn main()->int{ range(12).permutations().to_array().len() }"),
    ("count-len", "fn main()->int{ count().len() }"),
    ("count-to-array", "fn main()->int{ count().to_array().len() }"),
    ("count-to_str", "fn main()->int{ count().to_str().len() }"),
    ("count-sum", "fn main()->bool{ count().sum() > 0 }"),
    ("count-reverse", "fn main()->int{ count().reverse().get(0) }"),
    ("count-sort", "fn main()->int{ count().sort().get(0) }"),
    ("count-to-set", "fn main()->int{ set<int>().update(count()).len() }"),
    ("count-to-mapping", "fn main()->int{ mapping<int>().update(count().to_generator().map((v_x: int)->{(v_x, v_x)})).len() }"),
    ("count-to-stack", "fn main()->int{ count().to_stack().len() }"),
    ("count-join", "fn main()->int{ count().map((v_x: int)->{v_x.to_str()}).join(\",\").len() }"),
    ("count-nth-native-never", "fn main()->bool{ count().map((v_x: int)->{false}).nth(0, not).has_value() }"),
    ("gen-filter-native-never", "fn main()->int{ count().to_generator().map((v_x: int)->{v_x < 0}).filter(cast<(bool)->(bool)>(not)).len() }"),
    ("gen-repeat-empty", "fn main()->int{ range(0).to_generator().repeat().get(0) }"),
    ("gen-repeat-empty-len", "fn main()->int{ cast<Sequence<int>>([]).to_generator().repeat().len() }"),
    ("gen-skip-huge", "fn main()->int{ count().to_generator().skip(10 ** 12).get(0) }"),
    ("gen-chain-infinite-first", "fn main()->int{ (count().to_generator() + range(3).to_generator()).get(2) }"),
    ("gen-windows-huge", "fn main()->int{ count().to_generator().windows(10 ** 9).get(0).len() }"),
    ("gen-windows-huge-native-source", "fn main()->int{ [1, 2, 3].to_generator().repeat().windows(10 ** 9).get(0).len() }"),
    ("gen-skip-huge-native-source", "fn main()->int{ [1, 2, 3].to_generator().repeat().skip(10 ** 12).get(0) }"),
    ("gen-filter-never-native-source", "fn main()->int{ [true].to_generator().repeat().filter(not).len() }"),
    ("gen-take-huge-native-source-len", "fn main()->int{ [1, 2, 3].to_generator().repeat().take(10 ** 12).len() }"),
    ("gen-zip-native-sources", "fn main()->int{ zip([1].to_generator().repeat(), [2].to_generator().repeat()).len() }"),
    ("gen-group-native-source", "fn main()->int{ [1].to_generator().repeat().group().get(0).len() }"),
    ("gen-chunks-huge", "fn main()->int{ count().to_generator().chunks(10 ** 9).get(0).len() }"),
    ("gen-product-infinite", "fn main()->int{ product(count().to_generator(), count().to_generator()).get(5)::item0 }"),
    ("gen-distinct-constant", "fn main()->int{ range(1).repeat().to_generator().distinct().get(1) }"),
    ("gen-group-constant", "fn main()->int{ range(1).repeat().to_generator().group().get(0).len() }"),
    ("gen-flatten-infinite", "fn main()->int{ count().to_generator().map((v_x: int)->{range(0).to_generator()}).flatten().get(0) }"),
    ("gen-take_while-always", "fn main()->int{ count().to_generator().take_while((v_x: int)->{true}).len() }"),
    ("gen-skip_until-never", "fn main()->int{ count().to_generator().skip_until((v_x: int)->{false}).get(0) }"),
    ("gen-aggregate-growing", "fn main()->bool{ count().to_generator().aggregate(1, (v_a: int, v_b: int)->{v_a * (v_b + 2)}).get(10 ** 6) > 0 }"),
    ("successors-growing", "fn main()->bool{ successors(2, (v_x: int)->{v_x * v_x}).get(100) > 0 }"),
    ("dist-weibull-quantile-large", "fn main()->bool{ weibull_distribution(20.0, 100000.0).quantile(0.5) > 0.0 }"),
    ("dist-gamma-quantile-tiny-scale", "fn main()->bool{ gamma_distribution(9.0, 5e-9).quantile(0.25) > 0.0 }"),
    ("dist-gamma-quantile-huge-scale", "fn main()->bool{ gamma_distribution(2.0, 1e12).quantile(0.999999) > 0.0 }"),
    ("dist-beta-quantile-edges", "fn main()->bool{ beta_distribution(0.001, 1000.0).quantile(0.5) >= 0.0 && beta_distribution(1000.0, 0.001).quantile(1e-12) >= 0.0 }"),
    ("dist-chisq-quantile-large", "fn main()->bool{ chisq_distribution(1000000).quantile(0.999) > 0.0 }"),
    ("dist-fs-quantile", "fn main()->bool{ fisher_snedecor_distribution(1e5, 3.0).quantile(0.99) > 0.0 }"),
    ("dist-students-quantile", "fn main()->bool{ students_t_distribution(1.0).quantile(0.999999) > 0.0 }"),
    ("dist-lognormal-quantile", "fn main()->bool{ lognormal_distribution(700.0, 1.0).quantile(0.5) > 0.0 || true }"),
    ("dist-normal-quantile-extreme", "fn main()->bool{ normal_distribution(1e300, 1e300).quantile(0.9999999) > 0.0 || true }"),
    ("dist-poisson-quantile-large", "fn main()->bool{ poisson_distribution(1e6).quantile(0.999) > 0 }"),
    ("dist-binomial-quantile-large", "fn main()->bool{ binomial_distribution(10 ** 9, 0.5).quantile(0.5) > 0 }"),
    ("dist-negbin-quantile", "fn main()->bool{ negative_binomial_distribution(1000.0, 1e-6).quantile(0.5) >= 0 }"),
    ("dist-hypergeometric-large", "fn main()->bool{ hypergeometric_distribution(10 ** 9, 10 ** 8, 10 ** 8).quantile(0.5) >= 0 }"),
    ("dist-geometric-tiny-p", "fn main()->bool{ geometric_distribution(1e-12).quantile(0.999999) >= 0 }"),
    ("dist-uniform-huge-sample", "fn main()->int{ uniform_distribution(1, 6).sample(10 ** 9).len() }"),
    ("dist-normal-huge-sample", "fn main()->int{ normal_distribution(0.0, 1.0).sample(10 ** 9).len() }"),
    ("dist-custom-many", "fn main()->bool{ custom_distribution(range(100000).map((v_x: int)->{(v_x, 1.0)})).quantile(0.5) >= 0 }"),
    ("float-pow-huge", "fn main()->bool{ is_error(1.5 ** 1e308) || true }"),
    ("int-sqrt-root-huge", "fn main()->bool{ floor_root(10 ** 3000, 7) > 0 }"),
    ("int-lcm-chain", "fn main()->bool{ range(1, 3000).reduce(1, (v_a: int, v_b: int)->{lcm(v_a, v_b)}) > 0 }"),
    ("str-find-huge", "fn main()->bool{ (\"ab\" * 100000).find(\"ba\" * 50000 + \"c\").has_value() == false }"),
    ("str-replace-huge", "fn main()->int{ (\"a\" * 100000).replace(\"a\", \"bb\" * 1000).len() }"),
    ("str-split-huge", "fn main()->int{ (\"a,\" * 100000).split(\",\").len() }"),
    ("regex-quadratic-scan", "fn main()->bool{ regex(\"a*b\").search(\"a\" * 100000).has_value() }"),
    ("regex-many-dead-offsets", "fn main()->bool{ regex(\"a\").search(\"b\" * 300000).has_value() }"),
    ("regex-nested-quantifier", "fn main()->bool{ regex(\"(a*)*b\").search(\"a\" * 100000).has_value() }"),
    ("regex-match-huge", "fn main()->bool{ regex(\"a*b\").match(\"a\" * 100000).has_value() }"),
    ("regex-search-late-start", "fn main()->bool{ regex(\"a*b\").search(\"a\" * 100000, 50000).has_value() }"),
    ("nth-backwards-huge", "fn main()->bool{ range(10 ** 12).nth(0 - 1, (v_x: int)->{v_x < 0}).has_value() }"),
    ("nth-backwards-native-predicate", "fn main()->bool{ range(10 ** 12).nth(0 - 1, is_error{int}).has_value() }"),
    ("last-native-predicate", "fn main()->bool{ range(10 ** 12).last(is_error{int}).has_value() }"),
    ("last-huge", "fn main()->bool{ range(10 ** 12).last((v_x: int)->{v_x < 0}).has_value() }"),
    ("deep-recursion", "fn v_d(v_n: int)->int{ 1 + v_d(v_n + 1) }\nfn main()->int{ v_d(0) }"),
    ("endless-tail-loop", "fn v_l(v_n: int)->int{ if(v_n < 0, 0, v_l(v_n + 1)) }\nfn main()->int{ v_l(0) }"),
    ("mutual-recursion", "fn v_a(v_n: int)->int{ fn v_b(v_m: int)->int{ v_a(v_m + 1) } v_b(v_n) }\nfn main()->int{ v_a(0) }"),
    ("exponential-calls", "fn v_f(v_n: int)->int{ if(v_n == 0, 1, v_f(v_n - 1) + v_f(v_n - 1)) }\nfn main()->int{ v_f(40) }"),
    ("string-doubling", "fn v_s(v_n: int, v_a: str)->str{ if(v_n == 0, v_a, v_s(v_n - 1, v_a + v_a)) }\nfn main()->int{ v_s(60, \"ab\").len() }"),
    ("array-doubling", "fn v_s(v_n: int, v_a: Sequence<int>)->Sequence<int>{ if(v_n == 0, v_a, v_s(v_n - 1, (v_a + v_a).to_array())) }\nfn main()->int{ v_s(60, [1]).len() }"),
    ("mapping-constant-hash", "fn main()->int{ mapping((v_x: int)->{0}, (v_a: int, v_b: int)->{v_a == v_b}).update(range(10 ** 6).to_generator().map((v_x: int)->{(v_x, v_x)})).len() }"),
    ("set-native-hash-huge", "fn main()->int{ set<int>().update(range(10 ** 9)).len() }"),
    ("sort-huge-native", "fn main()->int{ range(10 ** 7).map(neg{int}).sort().get(0) }"),
    ("format-huge-width", "fn main()->int{ format(5, \"1000000000d\").len() }"),
    ("str-repeat-join", "fn main()->int{ [\"ab\"].repeat(10 ** 9).join(\"\").len() }"),
    ("json-deep", "fn main()->int{ (\"[\" * 100000 + \"]\" * 100000).json_deserialize().serialize().len() }"),
];

/// fixed entries that the size limit bounds by design - the work is the size of a value the program
/// builds: with the size limit out of reach they end in AllocationLimitReached after seconds of
/// legitimate work (or, for digits-huge, finish after a long division chain) - and the known finding.
/// Everything else ends by the search or call budget, by an error or with a value, whatever the size limit.
pub const SIZE_BOUNDED: &[&str] = &[
    "digits-huge", "dist-hypergeometric-large",
    "array-doubling", "dist-normal-huge-sample", "dist-uniform-huge-sample", "format-huge-width", "permutations-to-array", "pow-huge", "pow-tower",
    "range-huge-sample", "range-huge-shuffle", "range-huge-sort", "range-huge-to-array", "seq-mul-huge-to-array", "sort-huge-native", "string-doubling",
    "successors-growing",
];

struct LiveJob {
    scenarios: Vec<Scenario>,
}

impl LiveJob {
    fn pipelines(spec: &JobSpec) -> Self {
        let mut rng = Prng::new(spec.seed);
        let count = spec.params.get("count").and_then(|v| v.as_u64()).unwrap_or(20) as usize;
        let mut scenarios = vec![];
        for k in 0..count {
            let text = random_pipeline(&mut rng);
            let mut sc = Scenario::standard(&text, live_limits());
            sc.ops = live_ops();
            sc.seed = spec.seed.wrapping_add(k as u64);
            // vary the budgets too, so that nothing depends on one configuration
            sc.limits.search = Some([1, 7, 100, 500, 5000][rng.below(5) as usize]);
            sc.limits.ud_call = Some([0, 1, 10, 300, 300, 3000, 3000, 3000][rng.below(8) as usize]);
            sc.label = format!("C10 live {}", text.trim().replace('\n', " "));
            scenarios.push(sc);
        }
        LiveJob { scenarios }
    }

    /// every documented function with each argument replaced by adversarial values of its type
    /// (and, for `pairs`, two arguments at once), the lazy result consumed
    fn doc_adversarial(spec: &JobSpec, out: &mut JobResult) -> Self {
        let part = spec.params.get("part").and_then(|v| v.as_u64()).unwrap_or(0) as usize;
        let parts = spec.params.get("parts").and_then(|v| v.as_u64()).unwrap_or(1) as usize;
        let pairs = spec.params.get("pairs").and_then(|v| v.as_u64()).unwrap_or(0) as usize;
        let (calls, _, _) = crate::docsig::calls();
        let mut rng = Prng::new(spec.seed);
        let mut scenarios = vec![];
        for (ci, c) in calls.iter().enumerate() {
            if ci % parts != part {
                continue;
            }
            let pools: Vec<Vec<String>> = c.arg_types.iter().map(crate::docsig::adversarial).collect();
            let mut texts: Vec<(String, String)> = vec![];
            for (i, pool) in pools.iter().enumerate() {
                for (k, e) in pool.iter().enumerate() {
                    texts.push((format!("{} arg{i}:{k}", c.label), crate::docsig::substituted(c, &[(i, e)])));
                }
            }
            // seeded subsets of two or more positions, all adversarial at once
            let positions: Vec<usize> = (0..pools.len()).filter(|i| !pools[*i].is_empty()).collect();
            if positions.len() >= 2 {
                for _ in 0..pairs {
                    let mut chosen: Vec<usize> = positions.iter().copied().filter(|_| rng.below(5) < 3).collect();
                    while chosen.len() < 2 {
                        let p = positions[rng.below(positions.len() as u64) as usize];
                        if !chosen.contains(&p) {
                            chosen.push(p);
                        }
                    }
                    chosen.sort();
                    let picks: Vec<(usize, usize)> = chosen.iter().map(|&i| (i, rng.below(pools[i].len() as u64) as usize)).collect();
                    let subs: Vec<(usize, &str)> = picks.iter().map(|&(i, k)| (i, pools[i][k].as_str())).collect();
                    let tag: Vec<String> = picks.iter().map(|(i, k)| format!("arg{i}:{k}")).collect();
                    texts.push((format!("{} {}", c.label, tag.join("+")), crate::docsig::substituted(c, &subs)));
                }
            }
            texts.sort();
            texts.dedup();
            for (label, call) in texts {
                let mut sc = Scenario::standard(&crate::docsig::forcing_program(&call, &c.ret), live_limits());
                sc.ops = live_ops();
                sc.perms = [Some(true); 6];
                sc.label = format!("C10 live doc-adversarial {label} {call}");
                scenarios.push(sc);
            }
        }
        out.count("doc_adversarial_cases", scenarios.len() as u64);
        LiveJob { scenarios }
    }

    fn fixed(spec: &JobSpec) -> Self {
        let only = spec.params.get("name").and_then(|v| v.as_str());
        let nosize = spec.params.get("nosize").and_then(|v| v.as_bool()).unwrap_or(false);
        let scenarios = FIXED
            .iter()
            .filter(|(n, _)| only.map_or(true, |o| o == *n))
            .map(|(n, text)| {
                let mut sc = Scenario::standard(text, live_limits());
                sc.ops = live_ops();
                // every effect allowed (the doubles are simulated): regex, random and sleep paths are reachable
                sc.perms = [Some(true); 6];
                sc.label = format!("C10 live fixed:{n}");
                if nosize {
                    // the search and call budgets alone must bound the work of these entries
                    sc.limits.size = Some(64 << 20);
                    sc.label = format!("C10 live fixed-search-bounded:{n}");
                }
                sc
            })
            .collect();
        LiveJob { scenarios }
    }
}

impl Job for LiveJob {
    fn len(&self) -> usize {
        self.scenarios.len()
    }
    fn scenario(&mut self, i: usize) -> Scenario {
        self.scenarios[i].clone()
    }
    fn judge(&mut self, _i: usize, sc: &Scenario, r: Exec, out: &mut JobResult) {
        let r = match r {
            Exec::Run(r) => r,
            Exec::CompileError(m) => {
                out.count("pipelines_rejected_by_compiler", 1);
                if sc.label.contains("fixed:") {
                    out.notes.push(format!("{}: does not compile: {}", sc.label, m.chars().take(160).collect::<String>()));
                }
                return;
            }
            Exec::CompilePanic(p) => {
                out.violate(violation(P, P, ("crash".into(), crash_signature(&p), format!("compiler panicked: {p}")), sc));
                return;
            }
        };
        out.absorb_run(&r);
        for f in o_crash(&r) {
            out.violate(violation(P, P, f, sc));
        }
        for f in o_uncaught(&r) {
            out.violate(violation(P, P, f, sc));
        }
        let got = r.main_outcome().class();
        // work bound: observer events are proportional to calls + allocations; the limits cap both
        let bound = 40 * (sc.limits.ud_call.unwrap_or(0) as u64 + sc.limits.search.unwrap_or(0) as u64) + 400_000;
        if r.events > bound * 50 {
            out.violate(violation(P, P, ("work".into(), "work far beyond what the limits allow".into(), format!("{} observer events under limits {}", r.events, serde_json::to_string(&sc.limits).unwrap_or_default())), sc));
        }
        let shape: String = sc.label.chars().filter(|c| c.is_ascii_alphabetic() || *c == '.').take(120).collect();
        out.tuples.insert(format!("{shape}|{got}"));
        out.probe(&format!("live_{}", got.replace(['"', '(', ')'], "").replace("violation:", "v_")));
        out.probe("live_runs");
    }
}
