//! The checks, one module per claimed property, plus helpers they share.

use crate::corpus::{self, Script};
use crate::engine::{Limits, RunResult, Scenario};
use crate::job::{Exec, Executor, Job, JobResult, JobSpec, Violation};
use crate::oracles::Finding;

pub mod c06;
pub mod c07;
pub mod c08;
pub mod c09;
pub mod c10;
pub mod c11;
pub mod c12;
pub mod c17;
pub mod c19;

/// build the prepared job for a spec (runs compile + calibration); None = nothing to run
/// (a violation or a note has been recorded in `out`)
pub fn make(spec: &JobSpec, ex: &mut Executor, out: &mut JobResult) -> Option<Box<dyn Job>> {
    match spec.check.as_str() {
        "C06" => c06::make(spec, ex, out),
        "C07" => c07::make(spec, ex, out),
        "C08" => c08::make(spec, ex, out),
        "C09" => c09::make(spec, ex, out),
        "C10" => c10::make(spec, ex, out),
        "C11" => c11::make(spec, ex, out),
        "C12" => c12::make(spec, ex, out),
        "C17" => c17::make(spec, ex, out),
        "C19" => c19::make(spec, ex, out),
        other => {
            out.notes.push(format!("unknown check {other}"));
            None
        }
    }
}

/// the scenario a corpus script runs under in calibration mode, honouring its config
pub fn corpus_scenario(s: &Script) -> Scenario {
    let mut sc = Scenario::standard(&s.text, Limits::calibration());
    sc.label = format!("script:{}", s.name);
    if s.allowed("regex") {
        sc.perms[4] = Some(true);
    }
    if s.allowed("sleep") {
        sc.perms[5] = Some(true);
    }
    if let Some(now) = s.now() {
        sc.env.unix_base = now;
        sc.env.unix_step = 0.0;
    }
    sc
}

/// scripts that compile and have no expected violation
pub fn runnable_corpus() -> Vec<Script> {
    corpus::load_all().into_iter().filter(|s| !s.expects_compile_error() && !s.expects_violation() && s.id != "022").collect()
}

pub fn find_script(id: &str) -> Option<Script> {
    corpus::load_all().into_iter().find(|s| s.id == id)
}

/// scenario described by job params: {"script": id} or {"program": text, "label": l}
pub fn scenario_from_params(spec: &JobSpec) -> Option<Scenario> {
    if let Some(v) = spec.params.get("scenario") {
        return serde_json::from_value(v.clone()).ok();
    }
    if let Some(id) = spec.params.get("script").and_then(|v| v.as_str()) {
        return find_script(id).map(|s| corpus_scenario(&s));
    }
    if let Some(p) = spec.params.get("program").and_then(|v| v.as_str()) {
        let mut sc = Scenario::standard(p, Limits::calibration());
        sc.label = spec.params.get("label").and_then(|v| v.as_str()).unwrap_or("program").to_string();
        if spec.params.get("finite").and_then(|v| v.as_bool()).unwrap_or(false) {
            sc.reference_budgets = Some((2_000, 20_000));
            sc.limits.search = Some(2_000);
            sc.limits.ud_call = Some(20_000);
        }
        return Some(sc);
    }
    None
}

pub struct Base {
    /// the reference scenario (calibration limits, no faults, log recorded)
    pub sc: Scenario,
    pub reference: RunResult,
}

/// fault-free reference of a scenario: same program, permissions, layout and host ops
pub fn reference_scenario(sc: &Scenario) -> Scenario {
    let mut r = sc.clone();
    r.limits = Limits::calibration();
    if let Some((search, calls)) = sc.reference_budgets {
        r.limits.search = Some(search);
        r.limits.ud_call = Some(calls);
    }
    r.env.writer.clear();
    r.env.alloc_tick_ns = 0;
    r.env.read_tick_ns = 0;
    r.env.mono_jumps.clear();
    r.env.record = true;
    r
}

pub fn violation(property: &str, check: &str, f: Finding, sc: &Scenario) -> Violation {
    Violation {
        property: property.to_string(),
        class: f.0,
        signature: f.1,
        detail: format!("{} [{}]", f.2, sc.label),
        check: check.to_string(),
        scenario: Some(sc.clone()),
        job_index: None,
    }
}

/// run the reference; compile failures and crashes of the reference are reported here
pub fn prepare_base(property: &str, check: &str, sc: &Scenario, ex: &mut Executor, out: &mut JobResult) -> Option<Base> {
    let rsc = reference_scenario(sc);
    match ex.exec(&rsc) {
        Exec::Run(r) => {
            out.absorb_run(&r);
            let crashes = crate::oracles::o_crash(&r);
            if !crashes.is_empty() {
                for f in crashes {
                    out.violate(violation(property, check, f, &rsc));
                }
                return None;
            }
            Some(Base { sc: rsc, reference: r })
        }
        Exec::CompileError(m) => {
            out.notes.push(format!("{}: does not compile, skipped: {}", rsc.label, m.chars().take(120).collect::<String>()));
            None
        }
        Exec::CompilePanic(p) => {
            out.violate(violation(
                property,
                check,
                ("crash".into(), crate::oracles::crash_signature(&p), format!("compiler panicked: {p}")),
                &rsc,
            ));
            None
        }
    }
}
