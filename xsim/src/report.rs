//! Check driver: runs a plan of jobs under the supervisor, turns dead workers into confirmed
//! violations, matches known findings, writes replay files and the evidence file, and maps
//! everything onto the exit-code contract (0 held / 1 violation / 2 harness error).

use crate::engine::Scenario;
use crate::job::{JobResult, JobSpec, Violation, PREP};
use crate::prng::fnv;
use crate::sup::{run_jobs, JobOutcome, SupOpts};
use serde::{Deserialize, Serialize};
use serde_json::json;
use std::collections::BTreeMap;
use std::io::Write;
use std::process::{Command, Stdio};
use std::time::Instant;

pub fn verif_root() -> String {
    std::env::var("VERIF_ROOT").unwrap_or_else(|_| "/verif".to_string())
}

pub struct CheckPlan {
    pub property: String,
    pub tier: String,
    pub seed: u64,
    pub level: String,
    pub jobs: Vec<JobSpec>,
    pub rule: String,
    pub assumptions: Vec<String>,
    pub opts: SupOpts,
    /// probes that must be non-zero for the evidence to be credible (exit 2 otherwise)
    pub required_probes: Vec<String>,
    pub exhaustive: bool,
    pub extra: serde_json::Value,
}

#[derive(Clone, Debug, Serialize, Deserialize)]
pub struct ReplayFile {
    pub property: String,
    pub check: String,
    pub class: String,
    pub signature: String,
    pub detail: String,
    pub seed: u64,
    pub scenario: Option<Scenario>,
    pub job: Option<JobSpec>,
}

#[derive(Clone, Debug, Deserialize)]
pub struct KnownFinding {
    pub property: String,
    /// exact signature of the failing scenario, or empty when `signature_all_of` is used
    #[serde(default)]
    pub signature: String,
    /// alternative identification by call site: every fragment must occur in the signature
    /// (used where the same failing call is reached with several neighbouring arguments)
    #[serde(default)]
    pub signature_all_of: Vec<String>,
    pub what: String,
}

impl KnownFinding {
    pub fn matches(&self, property: &str, signature: &str) -> bool {
        self.property == property
            && ((!self.signature.is_empty() && self.signature == signature)
                || (!self.signature_all_of.is_empty() && self.signature_all_of.iter().all(|f| !f.is_empty() && signature.contains(f.as_str()))))
    }
}

#[derive(Clone, Debug, Deserialize, Default)]
pub struct KnownFindings {
    #[serde(default)]
    pub findings: Vec<KnownFinding>,
    #[serde(default)]
    pub fixed: Vec<serde_json::Value>,
}

pub fn load_known() -> KnownFindings {
    let p = format!("{}/known_findings.json", verif_root());
    match std::fs::read_to_string(&p) {
        Ok(s) => serde_json::from_str(&s).unwrap_or_else(|e| {
            eprintln!("harness error: {p} does not parse: {e}");
            std::process::exit(2)
        }),
        Err(_) => KnownFindings::default(),
    }
}

fn short_hash(s: &str) -> String {
    format!("{:012x}", fnv(0xcbf2_9ce4_8422_2325, s.as_bytes()) & 0xffff_ffff_ffff)
}

pub fn write_replay(v: &Violation, seed: u64, job: Option<&JobSpec>) -> String {
    let dir = format!("{}/replays", verif_root());
    let _ = std::fs::create_dir_all(&dir);
    let path = format!("{dir}/{}-{}.json", v.property, short_hash(&format!("{}|{}", v.property, v.signature)));
    let rf = ReplayFile {
        property: v.property.clone(),
        check: v.check.clone(),
        class: v.class.clone(),
        signature: v.signature.clone(),
        detail: v.detail.clone(),
        seed,
        scenario: v.scenario.clone(),
        job: if v.scenario.is_none() { job.cloned() } else { None },
    };
    std::fs::write(&path, serde_json::to_string_pretty(&rf).unwrap()).expect("write replay file");
    path
}

/// ask a fresh child which scenario a job runs at `index`
fn locate(spec: &JobSpec, index: usize) -> Option<Scenario> {
    let exe = std::env::current_exe().ok()?;
    let mut child = Command::new(exe)
        .arg("locate")
        .arg(index.to_string())
        .stdin(Stdio::piped())
        .stdout(Stdio::piped())
        .stderr(Stdio::null())
        .spawn()
        .ok()?;
    child.stdin.take()?.write_all(serde_json::to_string(spec).ok()?.as_bytes()).ok()?;
    let out = child.wait_with_output().ok()?;
    serde_json::from_slice(&out.stdout).ok()
}

pub fn single_job(check: &str, sc: &Scenario) -> JobSpec {
    JobSpec {
        check: check.to_string(),
        kind: "single".to_string(),
        seed: sc.seed,
        tier: "replay".to_string(),
        params: json!({ "scenario": sc }),
    }
}

/// signature for a worker death: specific to the program and fault configuration
pub fn death_signature(how: &str, sc: Option<&Scenario>) -> String {
    let kind = how.split(':').next().unwrap_or("abort");
    match sc {
        Some(sc) => format!("{kind} label={} limits={}", sc.label, serde_json::to_string(&sc.limits).unwrap_or_default()),
        None => format!("{kind} in job preparation"),
    }
}

pub fn execute(plan: CheckPlan) -> i32 {
    let t0 = Instant::now();
    let known = load_known();
    println!(
        "check {} tier={} seed={} jobs={} workers={}",
        plan.property,
        plan.tier,
        plan.seed,
        plan.jobs.len(),
        plan.opts.workers
    );
    let outcomes = run_jobs(&plan.jobs, &plan.opts);
    let mut total = JobResult::default();
    let mut harness_errors: Vec<String> = vec![];
    let mut dead: Vec<(usize, i64, String)> = vec![];
    for (i, o) in outcomes.into_iter().enumerate() {
        match o {
            JobOutcome::Done(r) => total.merge(r),
            JobOutcome::Died { index, how } => dead.push((i, index, how)),
        }
    }
    // a job that lost its worker at scenario i is continued from i+1 (the death itself is handled below)
    let mut pending: Vec<(usize, i64)> = dead.iter().filter(|d| d.1 >= 0).map(|d| (d.0, d.1)).collect();
    let mut rounds = 0;
    // a systemic hang (every scenario of every job dies) must not make the check itself unbounded:
    // once many workers have died the point is made; the remaining scenarios are not run
    const MAX_DEATHS: usize = 12;
    while !pending.is_empty() && rounds < 64 && dead.len() < MAX_DEATHS {
        rounds += 1;
        let specs: Vec<JobSpec> = pending
            .iter()
            .map(|(ji, idx)| {
                let mut s = plan.jobs[*ji].clone();
                if let serde_json::Value::Object(m) = &mut s.params {
                    m.insert("start_index".to_string(), json!(idx + 1));
                }
                s
            })
            .collect();
        let outs = run_jobs(&specs, &plan.opts);
        let mut next = vec![];
        for ((ji, _), o) in pending.iter().zip(outs.into_iter()) {
            match o {
                JobOutcome::Done(r) => total.merge(r),
                JobOutcome::Died { index, how } => {
                    dead.push((*ji, index, how));
                    if index >= 0 {
                        next.push((*ji, index));
                    }
                }
            }
        }
        pending = next;
    }
    if dead.len() >= MAX_DEATHS {
        total.notes.push(format!("{} workers died; continuation stopped and only the first {} deaths are confirmed", dead.len(), MAX_DEATHS / 2));
        dead.truncate(MAX_DEATHS / 2);
    }
    // confirm each death alone, from its own scenario file
    for (ji, index, how) in dead {
        let spec = &plan.jobs[ji];
        let sc = if index >= 0 { locate(spec, index as usize) } else { None };
        let class = how.split(':').next().unwrap_or("abort").to_string();
        match sc {
            Some(sc) => {
                let single = single_job(&spec.check, &sc);
                let mut o = plan.opts.clone();
                o.workers = 1;
                let confirm = run_jobs(&[single], &o);
                match &confirm[0] {
                    JobOutcome::Died { how: how2, .. } => {
                        let sig = death_signature(how2, Some(&sc));
                        total.violate(Violation {
                            property: plan.property.clone(),
                            class: how2.split(':').next().unwrap_or("abort").to_string(),
                            signature: sig,
                            detail: format!("{how2} (job {ji} kind {} index {index})", spec.kind),
                            check: spec.check.clone(),
                            scenario: Some(sc),
                            job_index: Some(ji),
                        });
                    }
                    JobOutcome::Done(r) => {
                        if r.violations.is_empty() {
                            harness_errors.push(format!(
                                "job {ji} ({}) died at index {index} ({how}) but its scenario runs to completion alone",
                                spec.kind
                            ));
                        }
                        total.merge(r.clone());
                    }
                }
            }
            None => {
                total.violate(Violation {
                    property: plan.property.clone(),
                    class,
                    signature: format!("{} job={} {}", death_signature(&how, None), spec.kind, short_hash(&spec.params.to_string())),
                    detail: format!("{how} (job {ji} kind {} index {index}{})", spec.kind, if index == PREP { " = preparation" } else { "" }),
                    check: spec.check.clone(),
                    scenario: None,
                    job_index: Some(ji),
                });
            }
        }
    }

    // violations: known findings vs new
    let mut new_violations = 0;
    let mut known_hits: BTreeMap<String, usize> = BTreeMap::new();
    let mut lines = vec![];
    for v in &total.violations {
        if let Some(k) = known.findings.iter().find(|k| k.matches(&v.property, &v.signature)) {
            let e = known_hits.entry(format!("KNOWN-FINDING: property={} {}", k.property, k.what)).or_insert(0);
            *e += 1;
        } else {
            new_violations += 1;
            let job = v.job_index.and_then(|i| plan.jobs.get(i)).or_else(|| plan.jobs.iter().find(|j| j.check == v.check));
            // minimise the first few reports (host ops, environment plan, limits) before writing them
            let (v, spent) = if new_violations <= 4 { crate::minimise::minimise(v, &plan.opts) } else { (v.clone(), 0) };
            let v = &v;
            let path = write_replay(v, plan.seed, job);
            lines.push(format!("VIOLATION property={} replay={}", v.property, path));
            if spent > 0 {
                lines.push(format!("  (minimised with {spent} candidate runs: {} host ops left)", v.scenario.as_ref().map_or(0, |s| s.ops.len())));
            }
            lines.push(format!("  class={} signature={}", v.class, v.signature));
            lines.push(format!("  detail={}", v.detail));
        }
    }
    for (l, _) in &known_hits {
        println!("{l}");
    }
    for l in &lines {
        println!("{l}");
    }
    for n in total.notes.iter().take(20) {
        println!("note: {n}");
    }

    // evidence
    let wall = t0.elapsed().as_secs_f64();
    let mut zero_probes = vec![];
    for p in &plan.required_probes {
        if total.probes.get(p).copied().unwrap_or(0) == 0 {
            zero_probes.push(p.clone());
        }
    }
    let fault_kinds: BTreeMap<&str, u64> = [
        ("allocation_refused", "alloc_fail"),
        ("preflight_refused", "preflight_fail"),
        ("call_refused", "call_refused"),
        ("depth_trip", "depth_due"),
        ("recursion_trip", "rec_due"),
        ("timeout_due", "timeouts_due"),
        ("permission_refused", "perm_refused"),
        ("write_error", "write_err"),
        ("write_eintr", "write_eintr"),
        ("write_short", "write_short"),
        ("write_zero", "write_zero"),
        ("sleep", "sleeps"),
        ("id_skip", "id_skips"),
        ("search_trip_outcomes", "search_trips"),
    ]
    .iter()
    .map(|(name, key)| (*name, total.counters.get(*key).copied().unwrap_or(0)))
    .collect();
    let evidence = json!({
        "property_id": plan.property,
        "tier": plan.tier,
        "seed": plan.seed,
        "level": plan.level,
        "coverage": {
            "evaluations": total.runs,
            "distinct_nontrivial": total.tuples.len(),
            "rule": plan.rule,
            "samples": total.samples,
            "exhaustive": plan.exhaustive,
            "jobs": plan.jobs.len(),
            "observer_events": total.events,
            "simulated_time_s": total.sim_ns as f64 * 1e-9,
            "runs_per_hour": if wall > 0.0 { (total.runs as f64 / wall * 3600.0) as u64 } else { 0 },
            "fault_kinds_fired": fault_kinds,
            "counters": total.counters,
            "distinct_fault_sites": total.sites.len(),
            "fault_sites_sample": total.sites.iter().take(40).collect::<Vec<_>>(),
            "probes": total.probes,
            "trace_hash": format!("{:016x}", total.trace_hash),
            "slowest_scenario": total.slowest.as_ref().map(|(ms, l)| json!({"thread_cpu_ms": ms, "label": l, "hang_budget_cpu_s": plan.opts.cpu_budget_s})),
            "known_findings_hit": known_hits,
            "components_real": ["parser", "type checker", "overload resolution", "evaluator", "all native builtins", "std library written in xray"],
            "components_stub": ["output sink (SimWriter)", "random source (SimRng)", "wall clock (SimClock)", "monotonic clock (verif::Instant)", "sleep (verif::thread)", "hasher keys (SimHashState)", "scope-id skips"],
            "extra": plan.extra,
        },
        "assumptions": plan.assumptions,
        "wall_s": wall,
        "violations": new_violations,
    });
    let dir = format!("{}/evidence", verif_root());
    let _ = std::fs::create_dir_all(&dir);
    let path = format!("{dir}/{}.json", plan.property);
    if let Err(e) = std::fs::write(&path, serde_json::to_string_pretty(&evidence).unwrap()) {
        eprintln!("harness error: cannot write {path}: {e}");
        return 2;
    }
    println!(
        "{}: runs={} distinct={} sites={} events={} wall={:.1}s violations={} known={}",
        plan.property,
        total.runs,
        total.tuples.len(),
        total.sites.len(),
        total.events,
        wall,
        new_violations,
        known_hits.len()
    );
    if new_violations > 0 {
        return 1;
    }
    if !harness_errors.is_empty() {
        for h in harness_errors {
            eprintln!("harness error: {h}");
        }
        return 2;
    }
    if !zero_probes.is_empty() {
        eprintln!("harness error: required coverage probes stuck at zero: {zero_probes:?}");
        return 2;
    }
    0
}

/// `xsim replay <file>`: exit 1 + VIOLATION line if the violation reproduces, 0 if the property
/// holds on it now, 2 if it cannot be run
pub fn replay(path: &str) -> i32 {
    let text = match std::fs::read_to_string(path) {
        Ok(t) => t,
        Err(e) => {
            eprintln!("harness error: cannot read {path}: {e}");
            return 2;
        }
    };
    let rf: ReplayFile = match serde_json::from_str(&text) {
        Ok(r) => r,
        Err(e) => {
            eprintln!("harness error: {path} is not a replay file: {e}");
            return 2;
        }
    };
    let spec = match (&rf.scenario, &rf.job) {
        (Some(sc), _) => single_job(&rf.check, sc),
        (None, Some(j)) => j.clone(),
        _ => {
            eprintln!("harness error: replay file has neither scenario nor job");
            return 2;
        }
    };
    let mut opts = SupOpts::default();
    opts.workers = 1;
    let out = run_jobs(&[spec], &opts);
    match &out[0] {
        JobOutcome::Died { how, .. } => {
            let sig = death_signature(how, rf.scenario.as_ref());
            println!("VIOLATION property={} replay={}", rf.property, path);
            println!("  class={} signature={}", how.split(':').next().unwrap_or("abort"), sig);
            println!("  same_signature={}", sig == rf.signature);
            1
        }
        JobOutcome::Done(r) => {
            if r.violations.is_empty() {
                println!("replay: no violation (property holds on this scenario now)");
                for n in &r.notes {
                    println!("note: {n}");
                }
                0
            } else {
                for v in &r.violations {
                    println!("VIOLATION property={} replay={}", v.property, path);
                    println!("  class={} signature={}", v.class, v.signature);
                    println!("  detail={}", v.detail);
                    println!("  same_signature={}", v.signature == rf.signature);
                }
                println!("  trace_hash={:016x}", r.trace_hash);
                1
            }
        }
    }
}
