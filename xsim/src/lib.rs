pub mod engine;
pub mod prng;
pub mod world;
pub mod corpus;
