//! Doc-driven call synthesis: every function the book documents (`## fn `name(sig)``) is turned
//! into a well-typed call with small sample arguments, so that each documented builtin becomes a
//! carrier for the fault sweeps and a case for the error-argument enumeration. Signatures that
//! cannot be synthesised (unknown types, variadics) are skipped and counted.

use crate::corpus;

#[derive(Clone, Debug, PartialEq)]
pub enum Ty {
    Int,
    Float,
    Str,
    Bool,
    Generic(String),
    Named(String, Vec<Ty>),
    Tuple(Vec<Ty>),
    Func(Vec<Ty>, Box<Ty>),
    Unknown,
}

#[derive(Clone, Debug)]
pub struct Param {
    pub name: String,
    pub ty: Ty,
    pub optional: bool,
}

#[derive(Clone, Debug)]
pub struct Sig {
    pub file: String,
    pub name: String,
    pub generics: Vec<String>,
    pub params: Vec<Param>,
    pub ret: Ty,
    pub dynamic: bool,
    pub raw: String,
}

struct P<'a> {
    s: &'a [u8],
    i: usize,
    generics: &'a [String],
}

impl<'a> P<'a> {
    fn ws(&mut self) {
        while self.i < self.s.len() && (self.s[self.i] as char).is_whitespace() {
            self.i += 1;
        }
    }
    fn eat(&mut self, c: u8) -> bool {
        self.ws();
        if self.i < self.s.len() && self.s[self.i] == c {
            self.i += 1;
            true
        } else {
            false
        }
    }
    fn peek(&mut self) -> Option<u8> {
        self.ws();
        self.s.get(self.i).copied()
    }
    fn ident(&mut self) -> Option<String> {
        self.ws();
        let st = self.i;
        while self.i < self.s.len() && ((self.s[self.i] as char).is_alphanumeric() || self.s[self.i] == b'_') {
            self.i += 1;
        }
        if self.i > st {
            Some(String::from_utf8_lossy(&self.s[st..self.i]).to_string())
        } else {
            None
        }
    }
    fn arrow(&mut self) -> bool {
        self.ws();
        if self.s[self.i..].starts_with(b"->") {
            self.i += 2;
            true
        } else {
            false
        }
    }
    fn ty(&mut self) -> Option<Ty> {
        self.ws();
        if self.eat(b'?') {
            return Some(Ty::Unknown);
        }
        if self.s[self.i..].starts_with(b"fn") && self.s.get(self.i + 2) == Some(&b'(') {
            self.i += 2;
        }
        if self.eat(b'(') {
            let mut items = vec![];
            if !self.eat(b')') {
                loop {
                    // allow `name: type` inside function types
                    let save = self.i;
                    if let Some(_) = self.ident() {
                        if !self.eat(b':') {
                            self.i = save;
                        }
                    }
                    items.push(self.ty()?);
                    if self.eat(b',') {
                        continue;
                    }
                    if self.eat(b')') {
                        break;
                    }
                    return None;
                }
            }
            if self.arrow() {
                let r = self.ty()?;
                return Some(Ty::Func(items, Box::new(r)));
            }
            return Some(if items.len() == 1 { items.pop().unwrap() } else { Ty::Tuple(items) });
        }
        let id = self.ident()?;
        let mut args = vec![];
        if self.eat(b'<') {
            loop {
                args.push(self.ty()?);
                if self.eat(b',') {
                    continue;
                }
                if self.eat(b'>') {
                    break;
                }
                return None;
            }
        }
        Some(match id.as_str() {
            "int" => Ty::Int,
            "float" => Ty::Float,
            "str" => Ty::Str,
            "bool" => Ty::Bool,
            _ if args.is_empty() && self.generics.iter().any(|g| *g == id) => Ty::Generic(id),
            _ if args.is_empty() && id.len() <= 2 && id.chars().next().map_or(false, |c| c.is_uppercase()) => Ty::Generic(id),
            _ => Ty::Named(id, args),
        })
    }
}

pub fn parse_sig(file: &str, raw: &str, dynamic: bool) -> Option<Sig> {
    if raw.contains("...") {
        return None;
    }
    let bytes = raw.as_bytes();
    let mut p = P { s: bytes, i: 0, generics: &[] };
    let name = p.ident()?;
    let mut generics = vec![];
    if p.eat(b'<') {
        loop {
            generics.push(p.ident()?);
            if p.eat(b',') {
                continue;
            }
            if p.eat(b'>') {
                break;
            }
            return None;
        }
    }
    let gs = generics.clone();
    let mut p = P { s: bytes, i: p.i, generics: &gs };
    if !p.eat(b'(') {
        return None;
    }
    let mut params = vec![];
    if !p.eat(b')') {
        loop {
            let save = p.i;
            let mut pname = format!("p{}", params.len());
            if let Some(id) = p.ident() {
                if p.eat(b':') {
                    pname = id;
                } else {
                    p.i = save;
                }
            }
            let ty = p.ty()?;
            let optional = p.eat(b'?');
            params.push(Param { name: pname, ty, optional });
            if p.eat(b',') {
                continue;
            }
            if p.eat(b')') {
                break;
            }
            return None;
        }
    }
    let ret = if p.arrow() { p.ty().unwrap_or(Ty::Unknown) } else { Ty::Unknown };
    let _ = p.peek();
    Some(Sig { file: file.to_string(), name, generics, params, ret, dynamic, raw: raw.to_string() })
}

pub fn load() -> (Vec<Sig>, usize) {
    let dir = format!("{}/book/src/std", corpus::repo_root());
    let mut files: Vec<String> = std::fs::read_dir(&dir)
        .map(|rd| rd.filter_map(|e| e.ok()).map(|e| e.file_name().to_string_lossy().to_string()).filter(|n| n.ends_with(".md")).collect())
        .unwrap_or_default();
    files.sort();
    let mut sigs = vec![];
    let mut skipped = 0;
    for f in files {
        let text = std::fs::read_to_string(format!("{dir}/{f}")).unwrap_or_default();
        for line in text.lines() {
            let (dynamic, rest) = if let Some(r) = line.strip_prefix("## dyn fn `") {
                (true, r)
            } else if let Some(r) = line.strip_prefix("## fn `") {
                (false, r)
            } else {
                continue;
            };
            let raw = rest.split('`').next().unwrap_or("");
            match parse_sig(&f, raw, dynamic) {
                Some(s) => sigs.push(s),
                None => skipped += 1,
            }
        }
    }
    (sigs, skipped)
}

/// a small sample expression of type `t` (generics are ints); None if it cannot be synthesised
pub fn sample(t: &Ty, variant: usize) -> Option<String> {
    Some(match t {
        Ty::Int | Ty::Generic(_) => ["3", "1", "2"][variant % 3].to_string(),
        Ty::Float => ["1.5", "0.5", "2.25"][variant % 3].to_string(),
        Ty::Str => ["\"ab\"", "\"c\"", "\"abc\""][variant % 3].to_string(),
        Ty::Bool => ["true", "false"][variant % 2].to_string(),
        Ty::Unknown => return None,
        Ty::Tuple(items) => {
            let parts: Option<Vec<String>> = items.iter().enumerate().map(|(i, x)| sample(x, variant + i)).collect();
            format!("({})", parts?.join(", "))
        }
        Ty::Func(args, ret) => {
            let mut ps = vec![];
            for (i, a) in args.iter().enumerate() {
                ps.push(format!("v_q{i}: {}", render(a)?));
            }
            format!("({})->{{ v_wk({}) }}", ps.join(", "), sample(ret, variant)?)
        }
        Ty::Named(n, args) => match (n.as_str(), args.as_slice()) {
            ("Sequence", [x]) => format!("[{}, {}, {}]", sample(x, 0)?, sample(x, 1)?, sample(x, 2)?),
            ("Generator", [x]) => format!("[{}, {}, {}].to_generator()", sample(x, 0)?, sample(x, 1)?, sample(x, 2)?),
            ("Optional", [x]) => format!("some({})", sample(x, variant)?),
            ("Stack", [x]) => format!("stack().push({}).push({})", sample(x, 0)?, sample(x, 1)?),
            ("Set", [x]) if matches!(x, Ty::Int | Ty::Generic(_) | Ty::Str) => format!("set<{}>().add({}).add({})", render(x)?, sample(x, 0)?, sample(x, 1)?),
            ("Mapping", [k, v]) if matches!(k, Ty::Int | Ty::Generic(_) | Ty::Str) => {
                format!("mapping<{}>().set({}, {}).set({}, {})", render(k)?, sample(k, 0)?, sample(v, 0)?, sample(k, 1)?, sample(v, 1)?)
            }
            ("Mapping", [k]) if matches!(k, Ty::Int | Ty::Generic(_) | Ty::Str) => format!("mapping<{}>().set({}, 1)", render(k)?, sample(k, 0)?),
            ("Complex", []) => "Complex(1.0, 2.0)".to_string(),
            ("Fraction", []) => "fraction(1, 2)".to_string(),
            ("Date", []) => "date(2459000)".to_string(),
            ("Datetime", []) => "datetime(1700000000.0)".to_string(),
            ("Duration", []) => "seconds(90.0)".to_string(),
            ("DiscreteDistribution", []) => "uniform_distribution(1, 6)".to_string(),
            ("ContinuousDistribution", []) => "normal_distribution(0.0, 1.0)".to_string(),
            ("Regex", []) => "regex(\"a+b\")".to_string(),
            _ => return None,
        },
    })
}

pub fn render(t: &Ty) -> Option<String> {
    Some(match t {
        Ty::Int | Ty::Generic(_) => "int".to_string(),
        Ty::Float => "float".to_string(),
        Ty::Str => "str".to_string(),
        Ty::Bool => "bool".to_string(),
        Ty::Unknown => return None,
        Ty::Tuple(items) => format!("({})", items.iter().map(render).collect::<Option<Vec<_>>>()?.join(", ")),
        Ty::Func(a, r) => format!("({})->({})", a.iter().map(render).collect::<Option<Vec<_>>>()?.join(", "), render(r)?),
        Ty::Named(n, args) if args.is_empty() => n.clone(),
        Ty::Named(n, args) => format!("{n}<{}>", args.iter().map(render).collect::<Option<Vec<_>>>()?.join(", ")),
    })
}

/// sample arguments for functions whose generic samples are outside their domain (the call
/// would only ever produce an error value): (function, full argument list)
const OVERRIDES: &[(&str, &[&str])] = &[
    ("rectangular_distribution", &["0.5", "1.5"]),
    ("triangular_distribution", &["0.5", "2.25"]),
    ("triangular_distribution", &["0.5", "2.25", "1.5"]),
    ("geometric_distribution", &["0.5"]),
    ("uniform_distribution", &["1", "3"]),
    ("acos", &["0.5"]),
    ("asin", &["0.5"]),
    ("atanh", &["0.5"]),
    ("digits", &["3", "2"]),
    ("json_deserialize", &["#\"[1, 2, {\"a\": 1.5, \"b\": [true, null, \"s\"]}]\"#"]),
    ("code_point", &["\"a\""]),
    ("to_int", &["\"12\""]),
];

pub const PRELUDE: &str = r#"
fn v_d(v_n: int)->int{ if(v_n == 0, 0, 1 + v_d(v_n - 1)) }
fn v_wk<T>(v_x: T)->T{ let v_z = v_d(1) + ("ab" * 2).len() + display(7); v_x }
"#;

#[derive(Clone, Debug)]
pub struct DocCall {
    pub label: String,
    /// the call expression
    pub call: String,
    /// argument expressions (for the error-argument enumeration)
    pub args: Vec<String>,
    pub name: String,
    pub has_callback: bool,
    /// declared type of each argument
    pub arg_types: Vec<Ty>,
    pub ret: Ty,
}

/// one call per signature with all required parameters, plus one with the optional ones
pub fn calls() -> (Vec<DocCall>, usize, usize) {
    let (sigs, unparsed) = load();
    let mut out = vec![];
    let mut unsynth = 0;
    for (k, s) in sigs.iter().enumerate() {
        let variants: Vec<Vec<&Param>> = if s.params.iter().any(|p| p.optional) {
            vec![s.params.iter().filter(|p| !p.optional).collect(), s.params.iter().collect()]
        } else {
            vec![s.params.iter().collect()]
        };
        for (vi, ps) in variants.iter().enumerate() {
            let args: Option<Vec<String>> = ps.iter().enumerate().map(|(i, p)| sample(&p.ty, i)).collect();
            let args = args.map(|a| match OVERRIDES.iter().find(|(n, o)| *n == s.name && o.len() == a.len()) {
                Some((_, o)) => o.iter().map(|x| x.to_string()).collect(),
                None => a,
            });
            // the generic str sample is not a format specifier; a bare width is one for every type
            let args = args.map(|mut a| {
                if s.name == "format" && a.len() == 2 {
                    a[1] = "\"8\"".to_string();
                }
                a
            });
            match args {
                None => unsynth += 1,
                Some(args) => {
                    let call = format!("{}({})", s.name, args.join(", "));
                    out.push(DocCall {
                        label: format!("doc:{}:{}#{k}.{vi}", s.file.trim_end_matches(".md"), s.name),
                        call,
                        args,
                        name: s.name.clone(),
                        has_callback: ps.iter().any(|p| matches!(p.ty, Ty::Func(..))),
                        arg_types: ps.iter().map(|p| p.ty.clone()).collect(),
                        ret: s.ret.clone(),
                    });
                }
            }
        }
    }
    (out, unparsed, unsynth)
}

pub fn program(call: &str) -> String {
    let ballast = "b".repeat(1400);
    format!("let v_ballast = \"{ballast}\";\n{PRELUDE}\nfn main()->bool{{ let v_r = {call}; true }}\n")
}

/// functions that are documented to skip, inspect or handle an error argument
pub const ERROR_HANDLERS: &[&str] = &["if", "if_error", "is_error", "get_error", "and", "or", "then", "map_or", "debug", "display", "assert", "get", "error", "value", "has_value", "cast", "partial", "some", "set_default"];

/// adversarial argument expressions of type `t`: zero, one, negative, huge, empty, infinite,
/// absent, and callbacks that never / always match
pub fn adversarial(t: &Ty) -> Vec<String> {
    let strs = |v: &[&str]| v.iter().map(|s| s.to_string()).collect::<Vec<_>>();
    match t {
        Ty::Int | Ty::Generic(_) => strs(&["0", "1", "0 - 1", "2", "0 - 2", "10 ** 12", "0 - 10 ** 12", "2 ** 70", "0 - 2 ** 70", "2 ** 63", "2 ** 64 - 1"]),
        Ty::Float => strs(&["0.0", "-0.0", "1.0", "-1.0", "1e308", "-1e308", "1e-320", "1e308 * 10.0", "0.5", "1e18", "-1e18"]),
        Ty::Str => strs(&["\"\"", "\"a\" * 100000", "\"\u{e9}\"", "\"%\"", "\"{\"", "\"(\"", "\"0\"", "\"-\"", "\"1e999\"", "\" \""]),
        Ty::Bool => strs(&["true", "false"]),
        Ty::Tuple(_) | Ty::Unknown => vec![],
        Ty::Func(args, ret) => {
            let mut ps = vec![];
            for (i, a) in args.iter().enumerate() {
                match render(a) {
                    Some(r) => ps.push(format!("v_q{i}: {r}")),
                    None => return vec![],
                }
            }
            let head = ps.join(", ");
            match ret.as_ref() {
                Ty::Bool => vec![format!("({head})->{{ false }}"), format!("({head})->{{ true }}")],
                Ty::Int | Ty::Generic(_) => vec![format!("({head})->{{ 0 }}"), format!("({head})->{{ 10 ** 12 }}"), format!("({head})->{{ 0 - 1 }}")],
                Ty::Float => vec![format!("({head})->{{ 0.0 }}"), format!("({head})->{{ 1e308 }}")],
                Ty::Named(n, a) if n == "Optional" && a.len() == 1 => match (render(&a[0]), sample(&a[0], 0)) {
                    (Some(r), Some(v)) => vec![format!("({head})->{{ cast<Optional<{r}>>(none()) }}"), format!("({head})->{{ some({v}) }}")],
                    _ => vec![],
                },
                _ => vec![],
            }
        }
        Ty::Named(n, args) => match (n.as_str(), args.as_slice()) {
            ("Sequence", [x]) => {
                let mut v = vec![];
                if let Some(r) = render(x) {
                    v.push(format!("cast<Sequence<{r}>>([])"));
                }
                if let Some(e) = sample(x, 0) {
                    v.push(format!("[{e}]"));
                    v.push(format!("[{e}].repeat()"));
                    v.push(format!("[{e}].repeat(10 ** 12)"));
                }
                if matches!(x, Ty::Int | Ty::Generic(_)) {
                    v.extend(strs(&["range(10 ** 12)", "count()", "range(10 ** 12).map((v_q: int)->{0})", "[0, 0, 0]", "[10 ** 12, 10 ** 12]", "[0 - 1, 5]", "[2 ** 70]"]));
                }
                if matches!(x, Ty::Float) {
                    v.extend(strs(&["[0.0, 0.0]", "[1e308, 1e308]", "[-1.0, 1.0]", "count().map((v_q: int)->{1.5})"]));
                }
                v
            }
            ("Generator", [x]) => {
                let mut v = vec![];
                if let Some(r) = render(x) {
                    v.push(format!("cast<Sequence<{r}>>([]).to_generator()"));
                }
                if let Some(e) = sample(x, 0) {
                    v.push(format!("[{e}].to_generator().repeat()"));
                    v.push(format!("[{e}].repeat(10 ** 12).to_generator()"));
                }
                if matches!(x, Ty::Int | Ty::Generic(_)) {
                    v.extend(strs(&["count().to_generator()", "range(10 ** 12).to_generator()", "successors(0, (v_q: int)->{v_q})", "count().to_generator().filter((v_q: int)->{false})"]));
                }
                v
            }
            ("Optional", [x]) => render(x).map(|r| vec![format!("cast<Optional<{r}>>(none())")]).unwrap_or_default(),
            ("Fraction", []) => strs(&["fraction(0, 1)", "fraction(10 ** 12, 1)", "fraction(1, 10 ** 12)", "fraction(0 - 1, 3)"]),
            ("Complex", []) => strs(&["Complex(0.0, 0.0)", "Complex(1e308, 1e308)", "Complex(-1.0, 0.0)"]),
            ("Duration", []) => strs(&["seconds(0.0)", "seconds(-1.0)", "seconds(1e300)"]),
            ("Date", []) => strs(&["date(0)", "date(0 - 10 ** 12)", "date(10 ** 12)"]),
            ("Datetime", []) => strs(&["datetime(0.0)", "datetime(-1e18)", "datetime(1e18)"]),
            ("Regex", []) => strs(&["regex(\"\")", "regex(\"(a*)*b\")", "regex(\".*\")"]),
            ("DiscreteDistribution", []) => strs(&["uniform_distribution(0, 10 ** 12)", "poisson_distribution(1e9)", "binomial_distribution(10 ** 9, 0.5)", "geometric_distribution(1e-12)"]),
            ("ContinuousDistribution", []) => strs(&["normal_distribution(0.0, 1e-300)", "normal_distribution(0.0, 1e300)", "exponential_distribution(1e-300)"]),
            _ => vec![],
        },
    }
}

/// the call with argument `i` (and optionally `j`) replaced
pub fn substituted(c: &DocCall, subs: &[(usize, &str)]) -> String {
    let mut args = c.args.clone();
    for (i, e) in subs {
        args[*i] = e.to_string();
    }
    format!("{}({})", c.name, args.join(", "))
}

/// program that evaluates the call and consumes a lazy result
pub fn forcing_program(call: &str, ret: &Ty) -> String {
    let forced = match ret {
        Ty::Named(n, _) if n == "Sequence" => format!("({call}).to_array().len()"),
        Ty::Named(n, _) if n == "Generator" => format!("({call}).len()"),
        _ => call.to_string(),
    };
    format!("{PRELUDE}\nfn main()->bool{{ let v_r = {forced}; true }}\n")
}

/// ill-typed variants: the call with one argument replaced by a value of another type. They are
/// rejected by the compiler with a message that lists the overloads considered - a text that
/// must not vary between compilations.
pub fn ill_typed_texts() -> Vec<(String, String)> {
    let (calls, _, _) = calls();
    let mut out = vec![];
    for c in &calls {
        for (i, t) in c.arg_types.iter().enumerate() {
            let wrong = match t {
                Ty::Str => "1",
                Ty::Int | Ty::Generic(_) | Ty::Float | Ty::Bool => "\"zz\"",
                _ => "true",
            };
            let call = substituted(c, &[(i, wrong)]);
            out.push((format!("{} ill-typed arg{i}", c.label), format!("{PRELUDE}\nfn main()->bool{{ let v_r = {call}; true }}\n")));
        }
    }
    out
}

/// "one big value + one operation": the call with one argument replaced by a large value of its
/// type (a few kB), so that the function's own allocations and pre-flights rise above the
/// transient peak of instantiation and become reachable size-fault points
pub fn big_variants(c: &DocCall) -> Vec<(String, String)> {
    let mut out = vec![];
    for (i, t) in c.arg_types.iter().enumerate() {
        let big: Option<String> = match t {
            Ty::Str if c.name == "json_deserialize" => Some("\"[\" + \"0,\" * 1500 + \"0]\"".into()),
            Ty::Str if c.name == "to_int" => Some("\"1\" * 3000".into()),
            Ty::Str if c.name == "format" && i == 1 => Some("\"3000\"".into()),
            Ty::Str => Some("\"ab\" * 3000".into()),
            // (no big ints: with a huge count or exponent many functions are legitimately slow - bounded, but minutes)
            Ty::Named(n, a) if n == "Sequence" && a.len() == 1 => match &a[0] {
                Ty::Int | Ty::Generic(_) => Some("range(600).to_array()".into()),
                Ty::Float => Some("range(600).map((v_q: int)->{v_q.to_float()}).to_array()".into()),
                Ty::Str => Some("range(600).map((v_q: int)->{v_q.to_str()}).to_array()".into()),
                _ => None,
            },
            Ty::Named(n, a) if n == "Generator" && a.len() == 1 => match &a[0] {
                Ty::Int | Ty::Generic(_) => Some("range(600).to_generator()".into()),
                Ty::Float => Some("range(600).to_generator().map((v_q: int)->{v_q.to_float()})".into()),
                _ => None,
            },
            Ty::Named(n, a) if n == "Set" && matches!(a.as_slice(), [Ty::Int] | [Ty::Generic(_)]) => Some("set<int>().update(range(300))".into()),
            Ty::Named(n, a) if n == "Mapping" && matches!(a.first(), Some(Ty::Int) | Some(Ty::Generic(_))) && a.len() == 2 && matches!(a[1], Ty::Int | Ty::Generic(_)) => {
                Some("mapping<int>().update(range(300).map((v_q: int)->{(v_q, v_q)}))".into())
            }
            Ty::Named(n, a) if n == "Stack" && matches!(a.as_slice(), [Ty::Int] | [Ty::Generic(_)]) => Some("range(300).reduce(cast<Stack<int>>(stack()), (v_s: Stack<int>, v_q: int)->{v_s.push(v_q)})".into()),
            _ => None,
        };
        if let Some(b) = big {
            out.push((format!("{} big-arg{i}", c.label), substituted(c, &[(i, &b)])));
        }
    }
    out
}

pub fn forcing_program_with_ballast(call: &str, ret: &Ty) -> String {
    let ballast = "b".repeat(1400);
    format!("let v_ballast = \"{ballast}\";\n{}", forcing_program(call, ret))
}

/// an empty value of type `t` (typed), for collection-like types
pub fn empty_of(t: &Ty) -> Option<String> {
    Some(match t {
        Ty::Str => "\"\"".to_string(),
        Ty::Named(n, a) => match (n.as_str(), a.as_slice()) {
            ("Sequence", [x]) => format!("cast<Sequence<{}>>([])", render(x)?),
            ("Generator", [x]) => format!("cast<Sequence<{}>>([]).to_generator()", render(x)?),
            ("Optional", [x]) => format!("cast<Optional<{}>>(none())", render(x)?),
            ("Set", [x]) if matches!(x, Ty::Int | Ty::Generic(_) | Ty::Str) => format!("set<{}>()", render(x)?),
            ("Mapping", [k, v]) if matches!(k, Ty::Int | Ty::Generic(_) | Ty::Str) => format!("mapping<{}>().set({}, {}).pop({})", render(k)?, sample(k, 0)?, sample(v, 0)?, sample(k, 0)?),
            ("Mapping", [k]) if matches!(k, Ty::Int | Ty::Generic(_) | Ty::Str) => format!("mapping<{}>().set({}, 1).pop({})", render(k)?, sample(k, 0)?, sample(k, 0)?),
            ("Stack", [x]) => format!("stack().push({}).tail()", sample(x, 0)?),
            _ => return None,
        },
        _ => return None,
    })
}

/// (file stem, function name) of every documented function whose description says it is short-circuiting:
/// such a function is documented not to evaluate some argument in some situation
pub fn short_circuiting() -> std::collections::BTreeSet<(String, String)> {
    let dir = format!("{}/book/src/std", corpus::repo_root());
    let mut out = std::collections::BTreeSet::new();
    let Ok(rd) = std::fs::read_dir(&dir) else { return out };
    let mut files: Vec<_> = rd.filter_map(|e| e.ok()).map(|e| e.path()).filter(|p| p.extension().map_or(false, |x| x == "md")).collect();
    files.sort();
    for f in files {
        let stem = f.file_stem().and_then(|s| s.to_str()).unwrap_or("").to_string();
        let Ok(text) = std::fs::read_to_string(&f) else { continue };
        let mut current: Option<String> = None;
        for line in text.lines() {
            if let Some(rest) = line.strip_prefix("## fn `") {
                current = rest.split(|c: char| c == '(' || c == '<').next().map(|n| n.trim().to_string());
            } else if line.to_lowercase().contains("short-circuit") || line.to_lowercase().contains("short circuit") {
                if let Some(n) = &current {
                    out.insert((stem.clone(), n.clone()));
                }
            }
        }
    }
    out
}
