//! Supervisor: runs jobs in child worker processes with a CPU-time watchdog, so that a hang, an
//! abort, a stack overflow or an out-of-memory kill inside xray is a *result* attributed to the
//! scenario in flight, never a harness failure. CPU time (not wall time) is charged, so machine
//! load cannot raise an alarm.

use crate::job::{JobResult, JobSpec, PREP};
use std::io::{BufRead, BufReader, Write};
use std::os::unix::process::CommandExt;
use std::process::{Child, Command, Stdio};
use std::sync::atomic::{AtomicUsize, Ordering};
use std::sync::mpsc::{channel, Receiver, RecvTimeoutError};
use std::sync::{Arc, Mutex};
use std::time::Duration;

#[derive(Clone, Debug)]
pub enum JobOutcome {
    Done(JobResult),
    /// the worker died or was killed while running scenario `index` (PREP = while preparing)
    Died { index: i64, how: String },
}

#[derive(Clone, Debug)]
pub struct SupOpts {
    pub workers: usize,
    /// CPU seconds one scenario may use before it is declared hung
    pub cpu_budget_s: f64,
    /// address-space limit per worker (bytes)
    pub mem_limit: u64,
}

impl Default for SupOpts {
    fn default() -> Self {
        let workers = std::env::var("VERIF_WORKERS").ok().and_then(|s| s.parse().ok()).unwrap_or_else(|| {
            std::thread::available_parallelism().map(|n| n.get()).unwrap_or(4).min(16)
        });
        SupOpts { workers, cpu_budget_s: 10.0, mem_limit: 6 << 30 }
    }
}

fn cpu_seconds(pid: u32) -> Option<f64> {
    let s = std::fs::read_to_string(format!("/proc/{pid}/stat")).ok()?;
    let rest = &s[s.rfind(')')? + 2..];
    let f: Vec<&str> = rest.split_whitespace().collect();
    let utime: f64 = f.get(11)?.parse().ok()?;
    let stime: f64 = f.get(12)?.parse().ok()?;
    let hz = unsafe { libc::sysconf(libc::_SC_CLK_TCK) } as f64;
    Some((utime + stime) / hz)
}

struct Worker {
    child: Child,
    rx: Receiver<String>,
}

fn spawn_worker(opts: &SupOpts) -> Worker {
    let exe = std::env::current_exe().expect("current_exe");
    let mem = opts.mem_limit;
    let mut cmd = Command::new(exe);
    cmd.arg("worker").stdin(Stdio::piped()).stdout(Stdio::piped()).stderr(Stdio::null());
    unsafe {
        cmd.pre_exec(move || {
            let lim = libc::rlimit { rlim_cur: mem, rlim_max: mem };
            libc::setrlimit(libc::RLIMIT_AS, &lim);
            let core = libc::rlimit { rlim_cur: 0, rlim_max: 0 };
            libc::setrlimit(libc::RLIMIT_CORE, &core);
            Ok(())
        });
    }
    let mut child = cmd.spawn().expect("spawn worker");
    let stdout = child.stdout.take().unwrap();
    let (tx, rx) = channel();
    std::thread::spawn(move || {
        let rd = BufReader::new(stdout);
        for line in rd.lines() {
            match line {
                Ok(l) => {
                    if tx.send(l).is_err() {
                        break;
                    }
                }
                Err(_) => break,
            }
        }
    });
    Worker { child, rx }
}

fn run_one(w: &mut Option<Worker>, spec: &JobSpec, opts: &SupOpts) -> JobOutcome {
    if w.is_none() {
        *w = Some(spawn_worker(opts));
    }
    let worker = w.as_mut().unwrap();
    let line = serde_json::to_string(spec).unwrap();
    let sent = worker.child.stdin.as_mut().map(|s| writeln!(s, "{line}").and_then(|_| s.flush()));
    if !matches!(sent, Some(Ok(()))) {
        let _ = worker.child.kill();
        let _ = worker.child.wait();
        *w = None;
        return JobOutcome::Died { index: PREP, how: "worker stdin closed".into() };
    }
    let pid = worker.child.id();
    let mut idx: i64 = PREP;
    let mut idx_at_poll: i64 = i64::MIN;
    let mut cpu_mark = cpu_seconds(pid).unwrap_or(0.0);
    loop {
        match worker.rx.recv_timeout(Duration::from_millis(250)) {
            Ok(l) => {
                if let Some(p) = l.strip_prefix("P ") {
                    idx = p.trim().parse().unwrap_or(idx);
                } else if let Some(r) = l.strip_prefix("R ") {
                    return match serde_json::from_str::<JobResult>(r) {
                        Ok(res) => JobOutcome::Done(res),
                        Err(e) => JobOutcome::Died { index: idx, how: format!("unparsable result: {e}") },
                    };
                }
            }
            Err(RecvTimeoutError::Timeout) => {
                let cpu = cpu_seconds(pid).unwrap_or(cpu_mark);
                if idx != idx_at_poll {
                    idx_at_poll = idx;
                    cpu_mark = cpu;
                } else if cpu - cpu_mark > opts.cpu_budget_s {
                    let _ = worker.child.kill();
                    let _ = worker.child.wait();
                    *w = None;
                    return JobOutcome::Died { index: idx, how: format!("hang: more than {} CPU-seconds in one scenario", opts.cpu_budget_s) };
                }
            }
            Err(RecvTimeoutError::Disconnected) => {
                let status = worker.child.wait().ok();
                *w = None;
                let how = match status {
                    Some(s) => {
                        use std::os::unix::process::ExitStatusExt;
                        if let Some(sig) = s.signal() {
                            format!("abort: worker killed by signal {sig}")
                        } else {
                            format!("abort: worker exited with {:?}", s.code())
                        }
                    }
                    None => "abort: worker vanished".to_string(),
                };
                return JobOutcome::Died { index: idx, how };
            }
        }
    }
}

/// run all jobs; results come back in job order regardless of worker count
pub fn run_jobs(jobs: &[JobSpec], opts: &SupOpts) -> Vec<JobOutcome> {
    let n = jobs.len();
    let results: Arc<Mutex<Vec<Option<JobOutcome>>>> = Arc::new(Mutex::new(vec![None; n]));
    let next = Arc::new(AtomicUsize::new(0));
    let deaths = Arc::new(AtomicUsize::new(0));
    let jobs: Arc<Vec<JobSpec>> = Arc::new(jobs.to_vec());
    let mut handles = vec![];
    for _ in 0..opts.workers.min(n.max(1)) {
        let results = results.clone();
        let next = next.clone();
        let deaths = deaths.clone();
        let jobs = jobs.clone();
        let opts = opts.clone();
        handles.push(std::thread::spawn(move || {
            let mut w: Option<Worker> = None;
            loop {
                let i = next.fetch_add(1, Ordering::SeqCst);
                if i >= jobs.len() {
                    break;
                }
                // after many deaths the remaining jobs are not started (the check is already failing)
                if deaths.load(Ordering::SeqCst) >= 24 {
                    results.lock().unwrap()[i] = Some(JobOutcome::Done(JobResult { notes: vec!["skipped: too many worker deaths".into()], ..Default::default() }));
                    continue;
                }
                let out = run_one(&mut w, &jobs[i], &opts);
                if matches!(out, JobOutcome::Died { .. }) {
                    deaths.fetch_add(1, Ordering::SeqCst);
                }
                results.lock().unwrap()[i] = Some(out);
            }
            if let Some(mut w) = w {
                drop(w.child.stdin.take());
                let _ = w.child.wait();
            }
        }));
    }
    for h in handles {
        let _ = h.join();
    }
    let mut g = results.lock().unwrap();
    g.iter_mut().map(|o| o.take().unwrap_or(JobOutcome::Died { index: PREP, how: "not run".into() })).collect()
}

/// worker side: read job specs from stdin, run them, write progress and results to stdout
pub fn worker_main() {
    crate::engine::install_panic_hook();
    let stdin = std::io::stdin();
    let handle = std::thread::Builder::new()
        .stack_size(1 << 30)
        .spawn(move || {
            let stdout = std::io::stdout();
            for line in stdin.lock().lines() {
                let Ok(line) = line else { break };
                if line.trim().is_empty() {
                    continue;
                }
                let spec: JobSpec = match serde_json::from_str(&line) {
                    Ok(s) => s,
                    Err(e) => {
                        let mut o = stdout.lock();
                        let _ = writeln!(o, "R {}", serde_json::to_string(&JobResult { notes: vec![format!("bad spec: {e}")], ..Default::default() }).unwrap());
                        let _ = o.flush();
                        continue;
                    }
                };
                let mut progress = |i: i64| {
                    let mut o = stdout.lock();
                    let _ = writeln!(o, "P {i}");
                    let _ = o.flush();
                };
                let res = crate::job::run_job(&spec, &mut progress);
                let mut o = stdout.lock();
                let _ = writeln!(o, "R {}", serde_json::to_string(&res).unwrap());
                let _ = o.flush();
            }
        })
        .expect("spawn worker thread");
    let _ = handle.join();
}
