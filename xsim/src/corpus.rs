//! The shipped test scripts and their configurations (read from /repo at run time).

use std::collections::BTreeMap;
use std::fs;

#[derive(Clone, Debug)]
pub struct Script {
    pub id: String,
    pub name: String,
    pub text: String,
    pub config: Option<String>,
}

pub fn repo_root() -> String {
    std::env::var("XRAY_REPO").unwrap_or_else(|_| "/repo".to_string())
}

/// all `NNN_*.xr` scripts, ordered by id
pub fn load_all() -> Vec<Script> {
    let dir = format!("{}/test_scripts", repo_root());
    let mut scripts: BTreeMap<String, Script> = BTreeMap::new();
    let mut configs: BTreeMap<String, String> = BTreeMap::new();
    let mut names: Vec<String> = fs::read_dir(&dir)
        .unwrap_or_else(|e| panic!("cannot read {dir}: {e}"))
        .filter_map(|e| e.ok())
        .map(|e| e.file_name().to_string_lossy().to_string())
        .collect();
    names.sort();
    for n in names {
        let path = format!("{dir}/{n}");
        if let Some(stem) = n.strip_suffix(".xr") {
            let id = stem.split('_').next().unwrap_or(stem).to_string();
            let text = fs::read_to_string(&path).unwrap_or_default();
            scripts.insert(id.clone(), Script { id, name: n.clone(), text, config: None });
        } else if let Some(stem) = n.strip_suffix(".toml") {
            configs.insert(stem.to_string(), fs::read_to_string(&path).unwrap_or_default());
        }
    }
    for (id, c) in configs {
        if let Some(s) = scripts.get_mut(&id) {
            s.config = Some(c);
        }
    }
    scripts.into_values().collect()
}

impl Script {
    fn cfg_has(&self, key: &str) -> bool {
        self.config.as_deref().map_or(false, |c| c.lines().any(|l| l.trim_start().starts_with(key)))
    }
    pub fn expects_compile_error(&self) -> bool {
        self.cfg_has("expected_compilation_error")
    }
    pub fn expects_violation(&self) -> bool {
        self.cfg_has("expected_violation")
    }
    pub fn has_limits(&self) -> bool {
        self.config.as_deref().map_or(false, |c| c.contains("[limits]") || c.contains("limits."))
    }
    /// `now = <float>` in the config
    pub fn now(&self) -> Option<f64> {
        self.config.as_deref().and_then(|c| {
            c.lines().find_map(|l| {
                let l = l.trim();
                l.strip_prefix("now").and_then(|r| r.trim_start().strip_prefix('=')).and_then(|v| v.trim().parse().ok())
            })
        })
    }
    pub fn allowed(&self, perm: &str) -> bool {
        self.config.as_deref().map_or(false, |c| {
            c.lines().any(|l| l.trim_start().starts_with("allowed_permissions") && l.contains(&format!("\"{perm}\"")))
        })
    }
}
