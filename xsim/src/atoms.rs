//! Cost-algebra atoms: small program fragments whose value and cost vector (user calls, extra
//! frame depth, tail iterations, elements examined per searching builtin) are known in closed
//! form from their parameters — not read back from the implementation. Only user-written
//! functions and native builtins enter these counts (std functions written in xray would make
//! the counts depend on library internals).

use crate::prng::Prng;

#[derive(Clone, Debug)]
pub struct Atom {
    pub kind: &'static str,
    pub param: u64,
    pub decl: String,
    /// expression of type int, evaluated inside a user function
    pub expr: String,
    pub value: i64,
    /// user calls the expression makes
    pub calls: u64,
    /// deepest user frame above the frame evaluating the expression
    pub height: u64,
    /// longest run of consecutive tail iterations
    pub tail: u64,
    /// elements examined by each searching builtin invocation
    pub searches: Vec<u64>,
}

pub const KINDS: [&str; 28] = [
    "down", "loop_if", "loop_or", "loop_iferror", "loop_optor", "map", "map_down", "nth", "take_while", "skip_until", "gen_len", "gen_map_len", "gen_get",
    "seq_eq", "binom", "multinom", "multinom3", "loop_optopt", "gen_windows", "gen_filter", "nth_back", "seq_cmp", "seq_to_str", "seq_hash", "regex_miss", "regex_scan", "err_arg_first", "err_arg_last",
];

const PRIME: u128 = 1_000_003;

fn pow_mod(mut b: u128, mut e: u128) -> u128 {
    let mut r = 1u128;
    b %= PRIME;
    while e > 0 {
        if e & 1 == 1 {
            r = r * b % PRIME;
        }
        b = b * b % PRIME;
        e >>= 1;
    }
    r
}

/// C(a, b) mod PRIME for a < PRIME
fn binom_mod(a: u128, b: u128) -> u128 {
    let mut num = 1u128;
    let mut den = 1u128;
    for i in 0..b {
        num = num * ((a - i) % PRIME) % PRIME;
        den = den * ((i + 1) % PRIME) % PRIME;
    }
    num * pow_mod(den, PRIME - 2) % PRIME
}

pub fn atom(kind: &str, k: usize, n: u64) -> Atom {
    let ni = n as i64;
    match kind {
        "down" => Atom {
            kind: "down",
            param: n,
            decl: format!("fn v_d{k}(v_n: int)->int{{ if(v_n == 0, 0, 1 + v_d{k}(v_n - 1)) }}"),
            expr: format!("v_d{k}({n})"),
            value: ni,
            calls: n + 1,
            height: n + 1,
            tail: 0,
            searches: vec![],
        },
        "loop_if" => Atom {
            kind: "loop_if",
            param: n,
            decl: format!("fn v_l{k}(v_n: int, v_a: int)->int{{ if(v_n == 0, v_a, v_l{k}(v_n - 1, v_a + 2)) }}"),
            expr: format!("v_l{k}({n}, 0)"),
            value: 2 * ni,
            calls: 1,
            height: 1,
            tail: n,
            searches: vec![],
        },
        "loop_or" => Atom {
            kind: "loop_or",
            param: n,
            decl: format!("fn v_l{k}(v_n: int)->bool{{ v_n == 0 || v_l{k}(v_n - 1) }}"),
            expr: format!("if(v_l{k}({n}), 1, 0)"),
            value: 1,
            calls: 1,
            height: 1,
            tail: n,
            searches: vec![],
        },
        "loop_iferror" => Atom {
            kind: "loop_iferror",
            param: n,
            decl: format!("fn v_l{k}(v_n: int, v_a: int)->int{{ if_error(if(v_n == 0, v_a, error(\"more\")), v_l{k}(v_n - 1, v_a + 1)) }}"),
            expr: format!("v_l{k}({n}, 0)"),
            value: ni,
            calls: 1,
            height: 1,
            tail: n,
            searches: vec![],
        },
        "loop_optor" => Atom {
            kind: "loop_optor",
            param: n,
            decl: format!("fn v_l{k}(v_n: int, v_a: int)->int{{ if(v_n == 0, some(v_a), none()).or(v_l{k}(v_n - 1, v_a + 3)) }}"),
            expr: format!("v_l{k}({n}, 0)"),
            value: 3 * ni,
            calls: 1,
            height: 1,
            tail: n,
            searches: vec![],
        },
        "map" => {
            let n = n.max(1);
            Atom {
                kind: "map",
                param: n,
                decl: format!("fn v_m{k}(v_x: int)->int{{ v_x * 3 }}"),
                expr: format!("range({n}).map(v_m{k}).to_array().get({})", n - 1),
                value: 3 * (n as i64 - 1),
                calls: n,
                height: 1,
                tail: 0,
                searches: vec![],
            }
        }
        "map_down" => {
            // map over range(3) of a non-tail recursion of depth n
            Atom {
                kind: "map_down",
                param: n,
                decl: format!("fn v_d{k}(v_n: int)->int{{ if(v_n == 0, 0, 1 + v_d{k}(v_n - 1)) }}\nfn v_m{k}(v_x: int)->int{{ v_d{k}({n}) + v_x }}"),
                expr: format!("range(3).map(v_m{k}).to_array().get(2)"),
                value: ni + 2,
                calls: 3 * (n + 2),
                height: n + 2,
                tail: 0,
                searches: vec![],
            }
        }
        "nth" => Atom {
            kind: "nth",
            param: n,
            decl: String::new(),
            expr: format!("count().nth(0, (v_x: int)->{{v_x >= {n}}}).value()"),
            value: ni,
            calls: n + 1,
            height: 1,
            tail: 0,
            searches: vec![n + 1],
        },
        "take_while" => Atom {
            kind: "take_while",
            param: n,
            decl: String::new(),
            expr: format!("count().take_while((v_x: int)->{{v_x < {n}}}).len()"),
            value: ni,
            calls: n + 1,
            height: 1,
            tail: 0,
            searches: vec![n + 1],
        },
        "skip_until" => Atom {
            kind: "skip_until",
            param: n,
            decl: String::new(),
            expr: format!("count().skip_until((v_x: int)->{{v_x >= {n}}}).get(0)"),
            value: ni,
            calls: n + 1,
            height: 1,
            tail: 0,
            searches: vec![n + 1],
        },
        "gen_len" => Atom {
            kind: "gen_len",
            param: n,
            decl: String::new(),
            expr: format!("range({n}).to_generator().len()"),
            value: ni,
            calls: 0,
            height: 0,
            tail: 0,
            searches: vec![n],
        },
        "gen_map_len" => Atom {
            kind: "gen_map_len",
            param: n,
            decl: format!("fn v_m{k}(v_x: int)->int{{ v_x + 1 }}"),
            expr: format!("range({n}).to_generator().map(v_m{k}).len()"),
            value: ni,
            calls: n,
            height: if n > 0 { 1 } else { 0 },
            tail: 0,
            searches: vec![n],
        },
        "gen_get" => Atom {
            kind: "gen_get",
            param: n,
            decl: String::new(),
            expr: format!("count().to_generator().get({n})"),
            value: ni,
            calls: 0,
            height: 0,
            tail: 0,
            searches: vec![n + 1],
        },
        "seq_eq" => Atom {
            kind: "seq_eq",
            param: n,
            decl: String::new(),
            expr: format!("if(range({n}) == range({n}).to_array(), {n}, 0 - 1)"),
            value: ni,
            calls: 0,
            height: 0,
            tail: 0,
            searches: vec![n],
        },
        "binom" => Atom {
            kind: "binom",
            param: n,
            decl: String::new(),
            expr: format!("binom({}, {n})", n + 2),
            value: ((n + 2) * (n + 1) / 2) as i64,
            calls: 0,
            height: 0,
            tail: 0,
            // one search step per factor
            searches: vec![n],
        },
        "multinom" => {
            // multinom([n + 5, n]) = C(2n + 5, n); steps = one per collected term + sum of all terms but the largest = 2 + n
            let mut c: u128 = 1;
            for i in 0..n as u128 {
                c = c * (2 * n as u128 + 5 - i) / (i + 1);
            }
            Atom {
                kind: "multinom",
                param: n,
                decl: String::new(),
                expr: format!("multinom([{}, {n}]) % 1000003", n + 5),
                value: (c % 1_000_003) as i64,
                calls: 0,
                height: 0,
                tail: 0,
                searches: vec![n + 2],
            }
        }
        "multinom3" => {
            // multinom([n + 3, n, n]) = C(2n + 3, n) * C(3n + 3, n); steps = 3 collected terms + sum - max = 3 + 2n (one budget per call)
            let v = binom_mod(2 * n as u128 + 3, n as u128) * binom_mod(3 * n as u128 + 3, n as u128) % PRIME;
            Atom {
                kind: "multinom3",
                param: n,
                decl: String::new(),
                expr: format!("multinom([{}, {n}, {n}]) % 1000003", n + 3),
                value: v as i64,
                calls: 0,
                height: 0,
                tail: 0,
                searches: vec![2 * n + 3],
            }
        }
        "loop_optopt" => Atom {
            kind: "loop_optopt",
            param: n,
            decl: format!("fn v_l{k}(v_n: int, v_a: int)->Optional<int>{{ if(v_n == 0, some(v_a), none()).or(v_l{k}(v_n - 1, v_a + 3)) }}"),
            expr: format!("v_l{k}({n}, 0).value()"),
            value: 3 * ni,
            calls: 1,
            height: 1,
            tail: n,
            searches: vec![],
        },
        "gen_windows" => Atom {
            kind: "gen_windows",
            param: n,
            decl: String::new(),
            // the windows adaptor examines every element it pulls; the consumer one per window
            expr: format!("range({}).to_generator().windows(3).len()", n + 2),
            value: ni,
            calls: 0,
            height: 0,
            tail: 0,
            searches: vec![n + 2],
        },
        "gen_filter" => Atom {
            kind: "gen_filter",
            param: n,
            decl: String::new(),
            // every third element passes: the consumer examines n, each run of rejections is 2 long
            expr: format!("range({}).to_generator().filter((v_x: int)->{{v_x % 3 == 0}}).len()", 3 * n),
            value: ni,
            calls: 3 * n,
            height: if n > 0 { 1 } else { 0 },
            tail: 0,
            searches: if n > 0 { vec![n, 2] } else { vec![0] },
        },
        "nth_back" => Atom {
            kind: "nth_back",
            param: n,
            decl: String::new(),
            // backwards search that never matches examines every element
            expr: format!("if(range({n}).nth(0 - 1, (v_x: int)->{{v_x < 0}}).has_value(), 1, 0)"),
            value: 0,
            calls: n,
            height: if n > 0 { 1 } else { 0 },
            tail: 0,
            searches: vec![n],
        },
        "seq_cmp" => Atom {
            kind: "seq_cmp",
            param: n,
            decl: String::new(),
            // first difference at index n
            expr: format!("cmp(range({}).to_array(), range({n}).to_array() + [{}]) + 1", n + 1, n + 5),
            value: 0,
            calls: 0,
            height: 0,
            tail: 0,
            searches: vec![n + 1],
        },
        "seq_to_str" => Atom {
            kind: "seq_to_str",
            param: n,
            decl: String::new(),
            expr: format!("if(range({n}).to_array().to_str().len() >= 2, {n}, 0 - 1)"),
            value: ni,
            calls: 0,
            height: 0,
            tail: 0,
            searches: vec![n],
        },
        "seq_hash" => Atom {
            kind: "seq_hash",
            param: n,
            decl: String::new(),
            expr: format!("if(range({n}).to_array().hash() >= 0, {n}, 0 - 1)"),
            value: ni,
            calls: 0,
            height: 0,
            tail: 0,
            searches: vec![n],
        },
        // a user call whose FIRST argument is an error: the call is not made (it yields the error), but every
        // argument is evaluated first - the later argument's n + 1 calls are made, counted and framed
        "err_arg_first" => Atom {
            kind: "err_arg_first",
            param: n,
            decl: format!("fn v_s{k}(v_a: int, v_b: int)->int{{ v_a + v_b }}\nfn v_q{k}(v_n: int)->int{{ if(v_n == 0, 0, 1 + v_q{k}(v_n - 1)) }}"),
            expr: format!("if_error(v_s{k}(error(\"e\"), v_q{k}({n})), {n})"),
            value: ni,
            calls: n + 1,
            height: n + 1,
            tail: 0,
            searches: vec![],
        },
        // the same with the error in the LAST argument of a lambda (natives differ: they stop at their first error argument)
        "err_arg_last" => Atom {
            kind: "err_arg_last",
            param: n,
            decl: format!("fn v_q{k}(v_n: int)->int{{ if(v_n == 0, 0, 1 + v_q{k}(v_n - 1)) }}"),
            expr: format!("if_error(((v_a: int, v_b: int)->{{ v_a + v_b }})(v_q{k}({n}), error(\"e\")), {n})"),
            value: ni,
            calls: n + 1,
            height: n + 1,
            tail: 0,
            searches: vec![],
        },
        // regex search: one search step per byte an anchored attempt reads. "a" over n b's: each of the n start
        // offsets reads one byte and dies (the offset at the end reads none)
        "regex_miss" => Atom {
            kind: "regex_miss",
            param: n,
            decl: String::new(),
            // (`search` is one user-level std function; the haystack is a literal so that no other std code runs)
            expr: format!("if(regex(\"a\").search(\"{}\").has_value(), 0 - 1, {n})", "b".repeat(n as usize)),
            value: ni,
            calls: 1,
            height: 1,
            tail: 0,
            searches: vec![n],
        },
        // "a*b" over n a's: the attempt at offset k reads the n - k remaining bytes and fails at the end
        "regex_scan" => Atom {
            kind: "regex_scan",
            param: n,
            decl: String::new(),
            expr: format!("if(regex(\"a*b\").search(\"{}\").has_value(), 0 - 1, {n})", "a".repeat(n as usize)),
            value: ni,
            calls: 1,
            height: 1,
            tail: 0,
            searches: vec![n * (n + 1) / 2],
        },
        other => panic!("unknown atom kind {other}"),
    }
}

#[derive(Clone, Debug)]
pub struct Program {
    pub atoms: Vec<Atom>,
    pub text: String,
    /// exported zero-argument functions `v_e<i>` (one per atom) and `main`
    pub exports: Vec<String>,
}

/// each atom is wrapped in its own exported function `v_e<i>()->int`; `main` returns the tuple
pub fn program(atoms: Vec<Atom>) -> Program {
    let mut text = String::new();
    let mut exports = vec![];
    for (i, a) in atoms.iter().enumerate() {
        if !a.decl.is_empty() {
            text.push_str(&a.decl);
            text.push('\n');
        }
        text.push_str(&format!("fn v_e{i}()->int{{ {} }}\n", a.expr));
        exports.push(format!("v_e{i}"));
    }
    let tys = vec!["int"; atoms.len()].join(", ");
    let calls: Vec<String> = (0..atoms.len()).map(|i| format!("v_e{i}()")).collect();
    if atoms.len() == 1 {
        text.push_str(&format!("fn main()->int{{ {} }}\n", calls[0]));
    } else {
        text.push_str(&format!("fn main()->({tys}){{ ({}) }}\n", calls.join(", ")));
    }
    Program { atoms, text, exports }
}

impl Program {
    /// dump of main's value
    pub fn value(&self) -> String {
        if self.atoms.len() == 1 {
            self.atoms[0].value.to_string()
        } else {
            format!("({})", self.atoms.iter().map(|a| a.value.to_string()).collect::<Vec<_>>().join(","))
        }
    }
    /// user calls of `main()`: main + one wrapper per atom + the atoms' own
    pub fn main_calls(&self) -> u64 {
        1 + self.atoms.iter().map(|a| 1 + a.calls).sum::<u64>()
    }
    /// deepest frame of `main()` called from the host (main = 1, wrapper = 2)
    pub fn main_height(&self) -> u64 {
        2 + self.atoms.iter().map(|a| a.height).max().unwrap_or(0)
    }
    pub fn max_tail(&self) -> u64 {
        self.atoms.iter().map(|a| a.tail).max().unwrap_or(0)
    }
    pub fn max_search(&self) -> u64 {
        self.atoms.iter().flat_map(|a| a.searches.iter().cloned()).max().unwrap_or(0)
    }
    /// cost of calling export i from the host
    pub fn export_calls(&self, i: usize) -> u64 {
        1 + self.atoms[i].calls
    }
    pub fn export_height(&self, i: usize) -> u64 {
        1 + self.atoms[i].height
    }
}

pub fn random_program(rng: &mut Prng, max_atoms: usize, max_param: u64) -> Program {
    let n = 1 + rng.below(max_atoms as u64) as usize;
    let mut atoms = vec![];
    for k in 0..n {
        let kind = *rng.pick(&KINDS);
        let p = match rng.below(6) {
            0 => 0,
            1 => 1,
            2 => 2,
            _ => rng.below(max_param + 1),
        };
        atoms.push(atom(kind, k, p));
    }
    program(atoms)
}
