//! Oracles shared by the checks. Each returns findings as (class, signature, detail); the caller
//! attaches property id and scenario.

use crate::engine::{kind_of, Limits, Outcome, RunResult, Scenario, BIG};
use crate::world::WFault;

pub type Finding = (String, String, String);

fn trim(s: &str, n: usize) -> String {
    let s = s.replace('\n', " ");
    if s.len() > n {
        let mut end = n;
        while !s.is_char_boundary(end) {
            end -= 1;
        }
        format!("{}…", &s[..end])
    } else {
        s
    }
}

/// panic location without the message payload (messages often embed values)
pub fn crash_signature(msg: &str) -> String {
    let loc = msg.rsplit(" @ ").next().unwrap_or("");
    let loc = loc.rsplit("/src/").next().unwrap_or(loc);
    let head: String = msg.split(" @ ").next().unwrap_or("").chars().take(60).collect();
    format!("crash at {loc}: {head}")
}

/// O-crash: every host op ends in a value, an error value or a violation
pub fn o_crash(r: &RunResult) -> Vec<Finding> {
    let mut out = vec![];
    for (i, op) in r.ops.iter().enumerate() {
        if let Outcome::Crash(m) = &op.outcome {
            out.push(("crash".to_string(), crash_signature(m), format!("host op {i} panicked: {}", trim(m, 300))));
        }
    }
    for p in &r.problems {
        if p.starts_with("crash") {
            out.push(("crash".to_string(), crash_signature(p), trim(p, 300)));
        }
    }
    out
}

/// O-balance: conservation of accounted bytes
pub fn o_balance(r: &RunResult) -> Vec<Finding> {
    let mut out = vec![];
    for p in &r.problems {
        if p.starts_with("balance") || p.starts_with("limit") {
            let kind = if p.contains("matches no outstanding") {
                "dealloc-unmatched"
            } else if p.contains("underflows") {
                "underflow"
            } else if p.starts_with("limit") {
                "over-limit"
            } else {
                "accessor-vs-model"
            };
            out.push(("balance".to_string(), format!("balance {kind}"), trim(p, 300)));
        }
    }
    for (i, op) in r.ops.iter().enumerate() {
        if op.accounted != op.model_total {
            out.push((
                "balance".to_string(),
                "balance accessor-vs-model".to_string(),
                format!("after host op {i}: accessor {} != model {}", op.accounted, op.model_total),
            ));
            break;
        }
    }
    if r.final_accounted != 0 {
        out.push((
            "balance".to_string(),
            "balance residue".to_string(),
            format!("{} bytes still accounted after every result and scope was dropped", r.final_accounted),
        ));
    }
    if r.final_outstanding != 0 {
        out.push((
            "balance".to_string(),
            "balance leaked-allocations".to_string(),
            format!("{} allocations never given back after everything was dropped", r.final_outstanding),
        ));
    }
    out
}

pub fn observable(kind: &str) -> bool {
    kind != "MaximumSearch"
}

/// O-uncaught: the first violation that fired during a host op is what the host receives;
/// and a violation the host receives did fire
pub fn o_uncaught(r: &RunResult) -> Vec<Finding> {
    let mut out = vec![];
    for (i, op) in r.ops.iter().enumerate() {
        let got = op.outcome.violation_kind();
        if let Some(first) = op.fired.first() {
            match got {
                Some(k) if k == first => {}
                Some(k) if !observable(k) => {
                    // a search trip cannot be observed; it may legitimately precede `first`
                }
                Some(k) => out.push((
                    "uncaught".to_string(),
                    format!("converted {first} -> {k}"),
                    format!("host op {i}: first fired violation was {first} but the host received {k} (fired: {:?})", op.fired),
                )),
                None => out.push((
                    "uncaught".to_string(),
                    format!("swallowed {first}"),
                    format!(
                        "host op {i}: violation {first} fired but the host received {} (fired: {:?})",
                        trim(&format!("{:?}", op.outcome), 120),
                        op.fired
                    ),
                )),
            }
        } else if let Some(k) = got {
            if observable(k) {
                out.push((
                    "uncaught".to_string(),
                    format!("unprovoked {k}"),
                    format!("host op {i}: host received {k} but no such violation was observed firing"),
                ));
            }
        }
    }
    out
}

/// which violation kinds the configuration of `sc` can legitimately produce
pub fn producible(sc: &Scenario) -> Vec<String> {
    let mut v = vec![];
    let l: &Limits = &sc.limits;
    if l.size.map_or(false, |s| s < BIG) {
        v.push("AllocationLimitReached".to_string());
    }
    if l.ud_call.map_or(false, |s| s < BIG) {
        v.push("MaximumUDCall".to_string());
    }
    if l.depth.is_some() {
        v.push("MaximumStackDepth".to_string());
    }
    if l.recursion.is_some() {
        v.push("MaximumRecursion".to_string());
    }
    if l.search.is_some() {
        v.push("MaximumSearch".to_string());
    }
    if l.time_ns.is_some() {
        v.push("Timeout".to_string());
    }
    if sc.env.writer.iter().any(|(_, f)| matches!(f, WFault::Error | WFault::Zero)) {
        v.push("OutputFailure".to_string());
    }
    for (i, name) in crate::engine::PERM_NAMES.iter().enumerate() {
        let on = sc.effective_perms()[i].unwrap_or(crate::engine::perm_default(i));
        if !on {
            v.push(format!("PermissionError(\"{name}\")"));
        }
    }
    v
}

/// O-transparent: a run under budgets/faults either equals the reference or ends in a violation
/// its configuration can produce; its output is a prefix of the reference output
pub fn o_transparent(sc: &Scenario, reference: &RunResult, r: &RunResult) -> Vec<Finding> {
    let mut out = vec![];
    let can = producible(sc);
    let n = reference.ops.len().min(r.ops.len());
    let mut violated = false;
    for i in 0..n {
        let a = &reference.ops[i].outcome;
        let b = &r.ops[i].outcome;
        match b {
            Outcome::Violation(v) => {
                violated = true;
                let k = kind_of(v);
                // (a request too large to represent is refused under every configured size limit, also the reference's)
                if !can.iter().any(|c| c == k) && a != b {
                    out.push((
                        "transparent".to_string(),
                        format!("impossible violation {k}"),
                        format!("host op {i}: got {k}, but the configuration can only produce {can:?}"),
                    ));
                }
                break;
            }
            Outcome::Crash(_) => {
                violated = true;
                break;
            }
            _ => {
                if a != b {
                    out.push((
                        "transparent".to_string(),
                        "result differs from unlimited run".to_string(),
                        format!(
                            "host op {i}: {} with limits/faults, {} without",
                            trim(&format!("{b:?}"), 160),
                            trim(&format!("{a:?}"), 160)
                        ),
                    ));
                    break;
                }
            }
        }
    }
    if violated {
        if !reference.out.starts_with(&r.out) {
            out.push((
                "transparent".to_string(),
                "output not a prefix of the unlimited run's output".to_string(),
                format!("{} bytes written, reference {} bytes", r.out.len(), reference.out.len()),
            ));
        }
    } else if r.out != reference.out {
        out.push((
            "transparent".to_string(),
            "output differs from unlimited run".to_string(),
            format!("{} bytes written, reference {} bytes", r.out.len(), reference.out.len()),
        ));
    }
    out
}

/// O-count: every user frame is a counted call or a tail iteration of one; every counted call
/// that was not refused enters (or is stopped by the clock)
pub fn o_count(sc: &Scenario, r: &RunResult) -> Vec<Finding> {
    let c = &r.counters;
    let mut out = vec![];
    if c.frames + c.rec_trips != c.call_enters + c.tail_iters {
        out.push((
            "count".to_string(),
            "user frames built outside counted calls".to_string(),
            format!("{} user frames built, but {} calls entered + {} tail iterations - {} recursion trips", c.frames, c.call_enters, c.tail_iters, c.rec_trips),
        ));
    }
    if sc.limits.ud_call.is_some() && c.call_counts - c.call_refused != c.call_enters + c.timeouts_due {
        out.push((
            "count".to_string(),
            "user calls entered without being counted".to_string(),
            format!("{} calls counted and admitted, {} entered (+{} stopped by the clock)", c.call_counts - c.call_refused, c.call_enters, c.timeouts_due),
        ));
    }
    for p in &r.problems {
        if p.starts_with("calls:") {
            out.push(("count".to_string(), "call counter disagrees with model".to_string(), p.clone()));
        }
    }
    for (i, op) in r.ops.iter().enumerate() {
        if sc.limits.ud_call.is_some() && op.ud_calls != op.model_calls {
            out.push((
                "count".to_string(),
                "call counter disagrees with model".to_string(),
                format!("after host op {i}: counter reads {}, {} calls were counted since the last reset", op.ud_calls, op.model_calls),
            ));
            break;
        }
    }
    out
}

/// O-transparent over a whole host history: every op either equals the reference op or ends in a
/// violation the configuration can produce; the bytes an op wrote equal the reference op's bytes,
/// or are a prefix of them if the op ended in a violation. Ops that could not run because an
/// earlier op failed (no scope) are skipped.
pub fn o_transparent_ops(sc: &Scenario, reference: &RunResult, r: &RunResult) -> Vec<Finding> {
    let mut out = vec![];
    let can = producible(sc);
    let n = reference.ops.len().min(r.ops.len());
    let seg = |rr: &RunResult, i: usize| -> (usize, usize) {
        let start = if i == 0 { 0 } else { rr.ops[i - 1].out_len };
        (start.min(rr.out.len()), rr.ops[i].out_len.min(rr.out.len()))
    };
    for i in 0..n {
        let a = &reference.ops[i].outcome;
        let b = &r.ops[i].outcome;
        let (rs, re) = seg(reference, i);
        let (s, e) = seg(r, i);
        let ref_bytes = &reference.out[rs..re];
        let bytes = &r.out[s..e];
        match b {
            Outcome::Violation(v) => {
                let k = kind_of(v);
                // (a request too large to represent is refused under every configured size limit, also the reference's)
                if !can.iter().any(|c| c == k) && a != b {
                    out.push((
                        "transparent".to_string(),
                        format!("impossible violation {k}"),
                        format!("host op {i}: got {k}, but the configuration can only produce {can:?}"),
                    ));
                }
                // natives may go on evaluating sibling elements after a violation fired, so a strict
                // prefix is more than the property states; but nothing may be written that the
                // unlimited run does not write (e.g. a catcher's fallback branch)
                if !is_subsequence(bytes, ref_bytes) {
                    out.push((
                        "transparent".to_string(),
                        "after a violation something was written that the unlimited run never writes".to_string(),
                        format!("host op {i}: wrote {:?}, reference wrote {:?}", trim(&String::from_utf8_lossy(bytes), 80), trim(&String::from_utf8_lossy(ref_bytes), 80)),
                    ));
                }
            }
            Outcome::Crash(_) => {}
            Outcome::Host(_) => {}
            _ => {
                if matches!(a, Outcome::Violation(_) | Outcome::Crash(_) | Outcome::Host(_)) {
                    continue;
                }
                if a != b {
                    out.push((
                        "transparent".to_string(),
                        "result differs from unlimited run".to_string(),
                        format!("host op {i}: {} with limits/faults, {} without", trim(&format!("{b:?}"), 160), trim(&format!("{a:?}"), 160)),
                    ));
                } else if bytes != ref_bytes {
                    out.push((
                        "transparent".to_string(),
                        "output differs from unlimited run".to_string(),
                        format!("host op {i}: wrote {:?}, reference wrote {:?}", trim(&String::from_utf8_lossy(bytes), 80), trim(&String::from_utf8_lossy(ref_bytes), 80)),
                    ));
                }
            }
        }
    }
    out
}

fn is_subsequence(needle: &[u8], hay: &[u8]) -> bool {
    let mut it = hay.iter();
    needle.iter().all(|b| it.any(|h| h == b))
}
