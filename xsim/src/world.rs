//! The simulated environment of one host thread: clock, sleep, hasher layout, scope-id skips,
//! output sink, random source, plus the read-only observer that feeds the reference models
//! (allocation conservation, call counter, first-fired violation, deadline).
//!
//! All of it lives in one thread-local `World`; the doubles handed to xray (`SimWriter`, `SimRng`,
//! `SimClock`) and the `xray::verif::Simulator` implementation are thin handles onto it.

use crate::prng::{fnv, Prng};
use serde::{Deserialize, Serialize};
use std::cell::RefCell;
use std::collections::{BTreeMap, HashMap};
use std::io::{self, Write};
use std::panic::Location;
use std::time::Duration;
use xray::time_provider::TimeProvider;
use xray::verif::{Event, LayoutDomain, Simulator};

// ---------------------------------------------------------------- configuration

#[derive(Clone, Debug, Serialize, Deserialize, PartialEq)]
pub enum WFault {
    /// `Err(ErrorKind::Other)`
    Error,
    /// `Err(ErrorKind::Interrupted)` — must be transparent (write_all retries)
    Interrupted,
    /// accept only `n` bytes (n >= 1) — must be transparent
    Short(usize),
    /// `Ok(0)` — write_all turns it into WriteZero
    Zero,
}

#[derive(Clone, Debug, Serialize, Deserialize, PartialEq)]
pub enum UnixVal {
    Finite(f64),
    Nan,
    PosInf,
    NegInf,
}

impl UnixVal {
    pub fn get(&self) -> f64 {
        match self {
            UnixVal::Finite(f) => *f,
            UnixVal::Nan => f64::NAN,
            UnixVal::PosInf => f64::INFINITY,
            UnixVal::NegInf => f64::NEG_INFINITY,
        }
    }
}

#[derive(Clone, Debug, Serialize, Deserialize, PartialEq)]
pub struct EnvCfg {
    pub layout_seed: u64,
    pub compile_layout_seed: u64,
    /// 0 = never skip ids; otherwise skips are drawn from this stream in 0..=id_skip_max
    pub id_skip_seed: u64,
    pub id_skip_max: usize,
    /// (write index, fault)
    pub writer: Vec<(u64, WFault)>,
    /// simulated ns added at every `every`-th allocation event (models slow natives)
    pub alloc_tick_ns: u64,
    pub alloc_tick_every: u64,
    /// simulated ns added at every monotonic read
    pub read_tick_ns: u64,
    /// (monotonic read index, extra ns)
    pub mono_jumps: Vec<(u64, u64)>,
    pub unix_base: f64,
    pub unix_step: f64,
    /// (unix read index, value) overrides
    pub unix_plan: Vec<(u64, UnixVal)>,
    pub rng_seed: u64,
    /// the first `rng_extreme_words` words are all-zero (kind 0) or all-one (kind 1)
    pub rng_extreme_words: u32,
    pub rng_extreme_kind: u8,
    /// keep the full event log (calibration runs)
    pub record: bool,
}

impl Default for EnvCfg {
    fn default() -> Self {
        EnvCfg {
            layout_seed: 1,
            compile_layout_seed: 1,
            id_skip_seed: 0,
            id_skip_max: 0,
            writer: vec![],
            alloc_tick_ns: 0,
            alloc_tick_every: 1,
            read_tick_ns: 0,
            mono_jumps: vec![],
            unix_base: 1_700_000_000.0,
            unix_step: 1.0,
            unix_plan: vec![],
            rng_seed: 7,
            rng_extreme_words: 0,
            rng_extreme_kind: 0,
            record: false,
        }
    }
}

/// "unlimited" value that still switches the accounting on
pub const BIG: usize = usize::MAX / 4;

#[derive(Clone, Debug, Serialize, Deserialize, PartialEq, Default)]
pub struct Limits {
    pub size: Option<usize>,
    pub depth: Option<usize>,
    pub recursion: Option<usize>,
    pub ud_call: Option<usize>,
    pub search: Option<usize>,
    pub time_ns: Option<u64>,
}

impl Limits {
    /// accounting switched on, nothing can trip
    pub fn calibration() -> Self {
        Limits { size: Some(BIG), depth: None, recursion: None, ud_call: Some(BIG), search: None, time_ns: None }
    }
}

pub const PERM_NAMES: [&str; 6] = ["now", "print", "print_debug", "random", "regex", "sleep"];

/// per permission: None = left unset (documented default applies)
pub type Perms = [Option<bool>; 6];

pub fn perm_default(i: usize) -> bool {
    i < 4
}


// ---------------------------------------------------------------- event log

#[derive(Clone, Debug, PartialEq)]
pub enum Ev {
    Alloc { size: usize, total: usize, ok: bool, site: u32 },
    Dealloc { size: usize, total: usize },
    Pre { req: usize, total: usize, ok: bool, site: u32 },
    Call { count: usize, ok: bool },
    Enter,
    Frame(usize),
    Tail(usize),
    DepthTrip(usize),
    RecTrip(usize),
    TCheck,
    Perm { id: &'static str, ok: bool },
    Write { len: usize, res: i64 },
    Flush,
    MonoRead(u64),
    UnixRead,
    Sleep(u64),
    RngNew,
    RngWord,
    Host(u32),
}

#[derive(Clone, Debug, Default, Serialize, Deserialize, PartialEq)]
pub struct Counters {
    pub alloc_ok: u64,
    pub alloc_fail: u64,
    pub dealloc: u64,
    pub preflight: u64,
    pub preflight_fail: u64,
    pub call_counts: u64,
    pub call_refused: u64,
    pub call_enters: u64,
    pub frames: u64,
    pub root_frames: u64,
    pub tail_iters: u64,
    pub depth_trips: u64,
    pub rec_trips: u64,
    pub depth_due: u64,
    pub rec_due: u64,
    pub timeout_checks: u64,
    pub timeouts_due: u64,
    pub perm_checks: u64,
    pub perm_refused: u64,
    pub writes: u64,
    pub flushes: u64,
    pub write_err: u64,
    pub write_eintr: u64,
    pub write_short: u64,
    pub write_zero: u64,
    pub mono_reads: u64,
    pub unix_reads: u64,
    pub sleeps: u64,
    pub rng_new: u64,
    pub rng_words: u64,
    pub layout_seeds_rt: u64,
    pub layout_seeds_ct: u64,
    pub id_skips: u64,
}

pub struct World {
    pub cfg: EnvCfg,
    pub seq: u64,
    pub hash: u64,
    pub log: Vec<Ev>,
    pub c: Counters,

    pub limits: Limits,
    pub perms: Perms,

    // ---- allocation model
    pub model_total: usize,
    pub model_peak: usize,
    pub outstanding: BTreeMap<usize, u32>,

    // ---- call model
    pub calls_since_reset: usize,
    pub enters_since_reset: usize,
    pub refused_since_reset: usize,
    pub max_height: usize,
    pub op_max_height: usize,

    // ---- fired violations (in order, capped)
    pub fired: Vec<String>,
    pub fired_sites: Vec<u32>,
    pub all_fired_sites: std::collections::BTreeSet<u32>,

    // ---- clock
    pub mono_ns: u64,
    pub in_deadline_set: bool,
    pub timer_start_ns: u64,
    pub late_enters: u64,
    pub slept_ns: u64,

    // ---- writer
    pub out: Vec<u8>,

    // ---- rng
    id_prng: Prng,

    // ---- online oracle findings
    pub problems: Vec<String>,

    // ---- site interning
    site_ids: HashMap<usize, u32>,
    pub sites: Vec<String>,
}

impl World {
    pub fn new(cfg: EnvCfg) -> Self {
        let id_prng = Prng::new(cfg.id_skip_seed);
        World {
            cfg,
            seq: 0,
            hash: 0xcbf2_9ce4_8422_2325,
            log: vec![],
            c: Counters::default(),
            limits: Limits::default(),
            perms: [None; 6],
            model_total: 0,
            model_peak: 0,
            outstanding: BTreeMap::new(),
            calls_since_reset: 0,
            enters_since_reset: 0,
            refused_since_reset: 0,
            max_height: 0,
            op_max_height: 0,
            fired: vec![],
            fired_sites: vec![],
            all_fired_sites: Default::default(),
            mono_ns: 0,
            in_deadline_set: false,
            timer_start_ns: 0,
            late_enters: 0,
            slept_ns: 0,
            out: vec![],
            id_prng,
            problems: vec![],
            site_ids: HashMap::new(),
            sites: vec![],
        }
    }

    fn site(&mut self, loc: &'static Location<'static>) -> u32 {
        let key = loc as *const _ as usize;
        if let Some(id) = self.site_ids.get(&key) {
            return *id;
        }
        let s = format!(
            "{}:{}",
            loc.file().rsplit("/src/").next().unwrap_or(loc.file()),
            loc.line()
        );
        // same textual site may have several Location objects
        let id = if let Some(pos) = self.sites.iter().position(|x| *x == s) {
            pos as u32
        } else {
            self.sites.push(s);
            (self.sites.len() - 1) as u32
        };
        self.site_ids.insert(key, id);
        id
    }

    fn push(&mut self, ev: Ev) {
        self.seq += 1;
        let mut h = self.hash;
        match &ev {
            Ev::Alloc { size, total, ok, site } => {
                let name = self.sites[*site as usize].as_bytes();
                h = fnv(h, &[1, *ok as u8]);
                h = fnv(h, &size.to_le_bytes());
                h = fnv(h, &total.to_le_bytes());
                h = fnv(h, name);
            }
            Ev::Dealloc { size, total } => {
                h = fnv(h, &[2]);
                h = fnv(h, &size.to_le_bytes());
                h = fnv(h, &total.to_le_bytes());
            }
            Ev::Pre { req, total, ok, site } => {
                let name = self.sites[*site as usize].as_bytes();
                h = fnv(h, &[3, *ok as u8]);
                h = fnv(h, &req.to_le_bytes());
                h = fnv(h, &total.to_le_bytes());
                h = fnv(h, name);
            }
            Ev::Call { count, ok } => {
                h = fnv(h, &[4, *ok as u8]);
                h = fnv(h, &count.to_le_bytes());
            }
            Ev::Enter => h = fnv(h, &[5]),
            Ev::Frame(n) => {
                h = fnv(h, &[18]);
                h = fnv(h, &n.to_le_bytes());
            }
            Ev::Tail(n) => {
                h = fnv(h, &[6]);
                h = fnv(h, &n.to_le_bytes());
            }
            Ev::DepthTrip(n) => {
                h = fnv(h, &[7]);
                h = fnv(h, &n.to_le_bytes());
            }
            Ev::RecTrip(n) => {
                h = fnv(h, &[8]);
                h = fnv(h, &n.to_le_bytes());
            }
            Ev::TCheck => h = fnv(h, &[9]),
            Ev::Perm { id, ok } => {
                h = fnv(h, &[10, *ok as u8]);
                h = fnv(h, id.as_bytes());
            }
            Ev::Write { len, res } => {
                h = fnv(h, &[11]);
                h = fnv(h, &len.to_le_bytes());
                h = fnv(h, &res.to_le_bytes());
            }
            Ev::Flush => h = fnv(h, &[19]),
            Ev::MonoRead(t) => {
                h = fnv(h, &[12]);
                h = fnv(h, &t.to_le_bytes());
            }
            Ev::UnixRead => h = fnv(h, &[13]),
            Ev::Sleep(n) => {
                h = fnv(h, &[14]);
                h = fnv(h, &n.to_le_bytes());
            }
            Ev::RngNew => h = fnv(h, &[15]),
            Ev::RngWord => h = fnv(h, &[16]),
            Ev::Host(i) => {
                h = fnv(h, &[17]);
                h = fnv(h, &i.to_le_bytes());
            }
        }
        self.hash = h;
        if self.cfg.record {
            self.log.push(ev);
        }
    }

    fn fire(&mut self, what: String, site: Option<u32>) {
        if let Some(s) = site {
            self.all_fired_sites.insert(s);
        }
        if self.fired.len() < 8 {
            self.fired.push(what);
            self.fired_sites.push(site.unwrap_or(u32::MAX));
        }
    }

    fn problem(&mut self, what: String) {
        if self.problems.len() < 8 {
            self.problems.push(what);
        }
    }

    pub fn host_mark(&mut self, i: u32) {
        self.push(Ev::Host(i));
    }

    /// host-side `Advance` operation
    pub fn advance(&mut self, ns: u64) {
        self.mono_ns = self.mono_ns.saturating_add(ns);
    }

    pub fn deadline_passed(&self) -> bool {
        match self.limits.time_ns {
            Some(t) => self.mono_ns.saturating_sub(self.timer_start_ns) > t,
            None => false,
        }
    }

    pub fn on_reset_calls(&mut self) {
        self.calls_since_reset = 0;
        self.enters_since_reset = 0;
        self.refused_since_reset = 0;
    }

    pub fn take_fired(&mut self) -> Vec<String> {
        self.fired_sites.clear();
        std::mem::take(&mut self.fired)
    }
}

impl Simulator for WorldHandle {
    fn monotonic_now(&mut self, _site: &'static Location<'static>) -> Duration {
        with(|w| {
            let idx = w.c.mono_reads;
            w.c.mono_reads += 1;
            let mut add = w.cfg.read_tick_ns;
            for (i, extra) in &w.cfg.mono_jumps {
                if *i == idx {
                    add = add.saturating_add(*extra);
                }
            }
            w.mono_ns = w.mono_ns.saturating_add(add);
            let now = w.mono_ns;
            if w.in_deadline_set {
                w.timer_start_ns = now;
            } else if let Some(t) = w.limits.time_ns {
                // a checking read: xray compares `deadline > now`
                if now.saturating_sub(w.timer_start_ns) >= t {
                    w.c.timeouts_due += 1;
                    w.fire("Timeout".to_string(), None);
                }
            }
            w.push(Ev::MonoRead(now));
            Duration::from_nanos(now)
        })
    }

    fn sleep(&mut self, duration: Duration) {
        with(|w| {
            let ns = duration.as_nanos().min(u64::MAX as u128) as u64;
            w.c.sleeps += 1;
            w.slept_ns = w.slept_ns.saturating_add(ns);
            w.mono_ns = w.mono_ns.saturating_add(ns);
            w.push(Ev::Sleep(ns));
        })
    }

    fn layout_seed(&mut self, domain: LayoutDomain) -> u64 {
        with(|w| match domain {
            LayoutDomain::Runtime => {
                w.c.layout_seeds_rt += 1;
                // one key per scenario: the order in which a container enumerates its content
                // must not depend on how many containers were created before it (a run cut short
                // by a violation creates fewer), or reruns could not be compared with the reference
                w.cfg.layout_seed.wrapping_mul(0x9E37_79B9_7F4A_7C15)
            }
            LayoutDomain::Compile => {
                w.c.layout_seeds_ct += 1;
                w.cfg.compile_layout_seed.wrapping_mul(0xC2B2_AE3D_27D4_EB4F)
            }
        })
    }

    fn id_skip(&mut self) -> usize {
        with(|w| {
            if w.cfg.id_skip_seed == 0 || w.cfg.id_skip_max == 0 {
                0
            } else {
                let k = w.id_prng.below(w.cfg.id_skip_max as u64 + 1) as usize;
                if k > 0 {
                    w.c.id_skips += 1;
                }
                k
            }
        })
    }

    fn observe(&mut self, event: &Event) {
        with(|w| w.observe(event))
    }
}

impl World {
    fn observe(&mut self, event: &Event) {
        match event {
            Event::Alloc { size, total_after, ok, site } => {
                let site = self.site(site);
                if *ok {
                    self.c.alloc_ok += 1;
                    self.model_total += *size;
                    if self.model_total > self.model_peak {
                        self.model_peak = self.model_total;
                    }
                    if *size > 0 {
                        // zero-sized accounts (empty error strings) are never given back
                        *self.outstanding.entry(*size).or_insert(0) += 1;
                    }
                    if *total_after != self.model_total {
                        let m = self.model_total;
                        self.problem(format!(
                            "balance: accounted {total_after} != model {m} after successful allocation of {size}"
                        ));
                    }
                    if let Some(l) = self.limits.size {
                        if *total_after > l {
                            self.problem(format!(
                                "limit: successful allocation left accounted {total_after} above limit {l}"
                            ));
                        }
                    }
                } else {
                    self.c.alloc_fail += 1;
                    self.fire("AllocationLimitReached".to_string(), Some(site));
                    if let Some(l) = self.limits.size {
                        if *total_after <= l {
                            self.problem(format!("limit: allocation refused although total {total_after} <= limit {l}"));
                        }
                    }
                }
                let every = self.cfg.alloc_tick_every.max(1);
                if self.cfg.alloc_tick_ns > 0 && (self.c.alloc_ok + self.c.alloc_fail) % every == 0 {
                    self.mono_ns = self.mono_ns.saturating_add(self.cfg.alloc_tick_ns);
                }
                self.push(Ev::Alloc { size: *size, total: *total_after, ok: *ok, site });
            }
            Event::Dealloc { size, total_after } => {
                self.c.dealloc += 1;
                match self.outstanding.get_mut(size) {
                    Some(n) if *n > 0 => {
                        *n -= 1;
                        if *n == 0 {
                            self.outstanding.remove(size);
                        }
                    }
                    _ => self.problem(format!(
                        "balance: deallocation of {size} bytes matches no outstanding allocation"
                    )),
                }
                if *size > self.model_total {
                    self.problem(format!(
                        "balance: deallocation of {size} underflows model total {}",
                        self.model_total
                    ));
                    self.model_total = 0;
                } else {
                    self.model_total -= *size;
                }
                if *total_after != self.model_total {
                    let m = self.model_total;
                    self.problem(format!(
                        "balance: accounted {total_after} != model {m} after deallocation of {size}"
                    ));
                }
                self.push(Ev::Dealloc { size: *size, total: *total_after });
            }
            Event::Preflight { request, total, ok, site } => {
                let site = self.site(site);
                self.c.preflight += 1;
                // None = the size does not fit in a usize
                let req = request.unwrap_or(usize::MAX);
                if *total != self.model_total {
                    let m = self.model_total;
                    self.problem(format!("balance: accounted {total} != model {m} at preflight"));
                }
                // the refusal is decided here from the limit, not taken from the hook
                let due = self.limits.size.map_or(false, |l| total.saturating_add(req) > l);
                if due != !*ok {
                    self.problem(format!("preflight: request {req} at total {total} was {} but the limit says {}", if *ok { "accepted" } else { "refused" }, if due { "refuse" } else { "accept" }));
                }
                if !*ok {
                    self.c.preflight_fail += 1;
                    self.fire("AllocationLimitReached".to_string(), Some(site));
                }
                self.push(Ev::Pre { req, total: *total, ok: *ok, site });
            }
            Event::CallCount { count, ok } => {
                self.c.call_counts += 1;
                self.calls_since_reset += 1;
                if *count != self.calls_since_reset {
                    let m = self.calls_since_reset;
                    self.problem(format!("calls: counter {count} != model {m}"));
                }
                let due = self.limits.ud_call.map_or(false, |l| self.calls_since_reset >= l);
                if due != !*ok {
                    let m = self.calls_since_reset;
                    self.problem(format!("calls: call #{m} since reset judged ok={ok} against limit {:?}", self.limits.ud_call));
                }
                if due {
                    self.c.call_refused += 1;
                    self.refused_since_reset += 1;
                    self.fire("MaximumUDCall".to_string(), None);
                }
                self.push(Ev::Call { count: *count, ok: *ok });
            }
            Event::CallEnter => {
                self.c.call_enters += 1;
                self.enters_since_reset += 1;
                if self.deadline_passed() {
                    self.late_enters += 1;
                    let over = self.mono_ns - self.timer_start_ns;
                    let t = self.limits.time_ns.unwrap_or(0);
                    self.problem(format!(
                        "deadline: user call began {over} ns after timer start, limit {t} ns"
                    ));
                }
                self.push(Ev::Enter);
            }
            Event::Frame { height, root } => {
                if *root {
                    self.c.root_frames += 1;
                } else {
                    self.c.frames += 1;
                    if *height > self.max_height {
                        self.max_height = *height;
                    }
                    if *height > self.op_max_height {
                        self.op_max_height = *height;
                    }
                }
                if self.limits.depth.map_or(false, |l| *height >= l) {
                    self.c.depth_due += 1;
                    self.fire("MaximumStackDepth".to_string(), None);
                }
                self.push(Ev::Frame(*height));
            }
            Event::TailIteration { iteration } => {
                self.c.tail_iters += 1;
                if self.limits.recursion.map_or(false, |l| *iteration > l) {
                    self.c.rec_due += 1;
                    self.fire("MaximumRecursion".to_string(), None);
                }
                self.push(Ev::Tail(*iteration));
            }
            Event::DepthTrip { height } => {
                self.c.depth_trips += 1;
                self.push(Ev::DepthTrip(*height));
            }
            Event::RecursionTrip { iteration } => {
                self.c.rec_trips += 1;
                self.push(Ev::RecTrip(*iteration));
            }
            Event::TimeoutCheck { .. } => {
                self.c.timeout_checks += 1;
                self.push(Ev::TCheck);
            }
            Event::Permission { id, ok, site } => {
                let site = self.site(site);
                self.c.perm_checks += 1;
                let expected = PERM_NAMES.iter().position(|n| n == id).map(|i| self.perms[i].unwrap_or(perm_default(i)));
                if let Some(e) = expected {
                    if e != *ok {
                        self.problem(format!("permission: {id} is {} in the configuration but the check saw {}", e, ok));
                    }
                }
                if !expected.unwrap_or(*ok) {
                    self.c.perm_refused += 1;
                    self.fire(format!("PermissionError(\"{id}\")"), Some(site));
                }
                self.push(Ev::Perm { id, ok: *ok });
            }
        }
    }
}

// ---------------------------------------------------------------- thread-local plumbing

thread_local! {
    static WORLD: RefCell<Option<World>> = const { RefCell::new(None) };
}

pub struct WorldHandle;

/// access the world of this thread; panics if none is installed
pub fn with<X>(f: impl FnOnce(&mut World) -> X) -> X {
    WORLD.with(|w| {
        let mut g = w.borrow_mut();
        f(g.as_mut().expect("no simulated world installed on this thread"))
    })
}

pub fn try_with<X>(f: impl FnOnce(&mut World) -> X) -> Option<X> {
    WORLD
        .try_with(|w| {
            let mut g = w.try_borrow_mut().ok()?;
            g.as_mut().map(f)
        })
        .ok()
        .flatten()
}

/// install a fresh world (and the xray-side simulator handle) on this thread
pub fn install(cfg: EnvCfg) {
    WORLD.with(|w| *w.borrow_mut() = Some(World::new(cfg)));
    xray::verif::install(Box::new(WorldHandle));
}

/// remove the world and return it for inspection
pub fn take() -> World {
    xray::verif::uninstall();
    WORLD.with(|w| w.borrow_mut().take().expect("no world installed"))
}

// ---------------------------------------------------------------- doubles

/// output sink handed to `RuntimeLimits::to_runtime`
#[derive(Debug, Default)]
pub struct SimWriter;

impl Write for SimWriter {
    fn write(&mut self, buf: &[u8]) -> io::Result<usize> {
        with(|w| {
            let idx = w.c.writes;
            w.c.writes += 1;
            let fault = w.cfg.writer.iter().find(|(i, _)| *i == idx).map(|(_, f)| f.clone());
            let (res, code): (io::Result<usize>, i64) = match fault {
                None => {
                    w.out.extend_from_slice(buf);
                    (Ok(buf.len()), buf.len() as i64)
                }
                Some(WFault::Error) => {
                    w.c.write_err += 1;
                    w.fire("OutputFailure".to_string(), None);
                    (Err(io::Error::new(io::ErrorKind::Other, "simulated sink failure")), -1)
                }
                Some(WFault::Interrupted) => {
                    w.c.write_eintr += 1;
                    (Err(io::Error::new(io::ErrorKind::Interrupted, "simulated EINTR")), -2)
                }
                Some(WFault::Short(n)) => {
                    let n = n.max(1).min(buf.len());
                    if n < buf.len() {
                        w.c.write_short += 1;
                    }
                    w.out.extend_from_slice(&buf[..n]);
                    (Ok(n), n as i64)
                }
                Some(WFault::Zero) => {
                    if buf.is_empty() {
                        (Ok(0), 0)
                    } else {
                        w.c.write_zero += 1;
                        w.fire("OutputFailure".to_string(), None);
                        (Ok(0), 0)
                    }
                }
            };
            w.push(Ev::Write { len: buf.len(), res: code });
            res
        })
    }

    fn flush(&mut self) -> io::Result<()> {
        with(|w| {
            w.c.flushes += 1;
            w.push(Ev::Flush);
        });
        Ok(())
    }
}

/// wall-clock double
#[derive(Debug, Default)]
pub struct SimClock;

impl TimeProvider for SimClock {
    fn unix_now(&self) -> f64 {
        with(|w| {
            let idx = w.c.unix_reads;
            w.c.unix_reads += 1;
            w.push(Ev::UnixRead);
            if let Some((_, v)) = w.cfg.unix_plan.iter().find(|(i, _)| *i == idx) {
                return v.get();
            }
            w.cfg.unix_base + w.cfg.unix_step * idx as f64 + (w.slept_ns as f64) * 1e-9
        })
    }
}

/// random source double: only `from_entropy` is how xray ever constructs one
pub struct SimRng {
    inner: Prng,
    extreme_left: u32,
    extreme_kind: u8,
}

impl rand::SeedableRng for SimRng {
    type Seed = [u8; 8];

    fn from_seed(seed: Self::Seed) -> Self {
        SimRng { inner: Prng::new(u64::from_le_bytes(seed)), extreme_left: 0, extreme_kind: 0 }
    }

    fn from_entropy() -> Self {
        with(|w| {
            w.c.rng_new += 1;
            w.push(Ev::RngNew);
            SimRng {
                inner: Prng::new(w.cfg.rng_seed.wrapping_add(w.c.rng_new)),
                extreme_left: w.cfg.rng_extreme_words,
                extreme_kind: w.cfg.rng_extreme_kind,
            }
        })
    }
}

impl rand::RngCore for SimRng {
    fn next_u32(&mut self) -> u32 {
        (self.next_u64() >> 32) as u32
    }

    fn next_u64(&mut self) -> u64 {
        try_with(|w| {
            w.c.rng_words += 1;
            w.push(Ev::RngWord);
        });
        if self.extreme_left > 0 {
            self.extreme_left -= 1;
            // keep the underlying stream in step so that replay stays a function of the seed
            let _ = self.inner.next_u64();
            return if self.extreme_kind == 0 { 0 } else { u64::MAX };
        }
        self.inner.next_u64()
    }

    fn fill_bytes(&mut self, dest: &mut [u8]) {
        for chunk in dest.chunks_mut(8) {
            let w = self.next_u64().to_le_bytes();
            chunk.copy_from_slice(&w[..chunk.len()]);
        }
    }

    fn try_fill_bytes(&mut self, dest: &mut [u8]) -> Result<(), rand::Error> {
        self.fill_bytes(dest);
        Ok(())
    }
}
