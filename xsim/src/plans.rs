//! Which jobs each check runs at each tier. Plans are pure functions of (tier, VERIF_SEED).

use crate::checks::runnable_corpus;
use crate::job::JobSpec;
use crate::prng::{derive, Prng};
use crate::report::CheckPlan;
use crate::sup::SupOpts;
use crate::templates;
use serde_json::json;

pub fn seed_from_env() -> u64 {
    std::env::var("VERIF_SEED").ok().and_then(|s| s.trim().parse::<u64>().ok()).unwrap_or(1)
}

fn job(check: &str, kind: &str, seed: u64, tier: &str, params: serde_json::Value) -> JobSpec {
    JobSpec { check: check.into(), kind: kind.into(), seed, tier: tier.into(), params }
}

/// seeded subset of the corpus (all of it when n >= len)
fn corpus_ids(seed: u64, n: usize) -> Vec<String> {
    let mut ids: Vec<String> = runnable_corpus().into_iter().map(|s| s.id).collect();
    if n < ids.len() {
        let mut rng = Prng::new(derive(seed, "corpus", 0));
        rng.shuffle(&mut ids);
        ids.truncate(n);
        ids.sort();
    }
    ids
}

/// number of accounting events (allocations + preflights) the empty program needs
pub fn std_prefix_events() -> usize {
    use crate::engine::*;
    let mut sc = Scenario::standard("", Limits::calibration());
    sc.env.record = true;
    sc.ops = vec![HostOp::Instantiate { slot: 0 }];
    match run_scenario(&sc) {
        Ok(r) => r.log.iter().filter(|e| matches!(e, crate::world::Ev::Alloc { .. } | crate::world::Ev::Pre { .. })).count(),
        Err(_) => 0,
    }
}

pub fn plan(property: &str, tier: &str) -> Option<CheckPlan> {
    let seed = seed_from_env();
    let thorough = tier == "thorough";
    match property {
        "C06" => Some(c06(seed, tier, thorough)),
        "C07" => Some(c07(seed, tier, thorough)),
        "C08" => Some(c08(seed, tier, thorough)),
        "C09" => Some(c09(seed, tier, thorough)),
        "C10" => Some(c10(seed, tier, thorough)),
        "C11" => Some(c11(seed, tier, thorough)),
        "C12" => Some(c12(seed, tier, thorough)),
        "C17" => Some(c17(seed, tier, thorough)),
        "C19" => Some(c19(seed, tier, thorough)),
        _ => None,
    }
}

fn c09(seed: u64, tier: &str, thorough: bool) -> CheckPlan {
    let mut jobs = vec![];
    let prefix = std_prefix_events().saturating_sub(4);
    // the std library's own allocation points, once
    jobs.push(job("C09", "size_sweep", seed, tier, json!({"program": "", "label": "template:empty-program", "skip_events": 0})));
    let n_scripts = if thorough { usize::MAX } else { 48 };
    for id in corpus_ids(seed, n_scripts) {
        jobs.push(job("C09", "size_sweep", derive(seed, "c09sweep", 0), tier,
            json!({"script": id, "skip_events": prefix, "max_points": if thorough { 4000 } else { 400 }})));
    }
    for (label, prog) in templates::value_kinds() {
        jobs.push(job("C09", "other_faults", derive(seed, &label, 2), tier, json!({"program": prog, "label": label, "max_points": if thorough { 200 } else { 24 }})));
        jobs.push(job("C09", "size_sweep", seed, tier, json!({"program": prog, "label": label, "skip_events": prefix, "max_points": 1500})));
        jobs.push(job("C09", "history", derive(seed, &label, 1), tier,
            json!({"program": prog, "label": label, "count": if thorough { 600 } else { 10 }, "funcs": ["main", "v_aux"]})));
    }
    // every documented function: with its sample arguments and with one big argument
    let (calls, _, _) = crate::docsig::calls();
    let mut k = 0u64;
    for c in &calls {
        let mut texts = vec![(c.label.clone(), c.call.clone())];
        texts.extend(crate::docsig::big_variants(c));
        for (label, call) in texts {
            k += 1;
            if thorough || (k + seed) % 6 == 0 {
                jobs.push(job("C09", "size_sweep", seed, tier, json!({"program": crate::docsig::forcing_program_with_ballast(&call, &c.ret), "label": label, "finite": true, "skip_events": prefix, "max_points": if thorough { 3000 } else { 120 }})));
            }
        }
    }
    for id in corpus_ids(derive(seed, "c09other", 0), if thorough { usize::MAX } else { 40 }) {
        jobs.push(job("C09", "other_faults", derive(seed, "c09other", 1), tier, json!({"script": id, "max_points": if thorough { 60 } else { 12 }})));
    }
    let hist_scripts = corpus_ids(derive(seed, "c09hist", 0), if thorough { usize::MAX } else { 24 });
    for (k, id) in hist_scripts.into_iter().enumerate() {
        jobs.push(job("C09", "history", derive(seed, "c09hist", k as u64 + 1), tier, json!({"script": id, "count": if thorough { 100 } else { 6 }})));
    }
    jobs.push(job("C09", "payload", seed, tier, json!({})));
    CheckPlan {
        property: "C09".into(),
        tier: tier.into(),
        seed,
        level: "fault_enumeration".into(),
        jobs,
        rule: "One evaluation = one simulated host history (instantiate, run, drop) of real xray code under one size limit. \
               For each program the limit is placed at every prefix maximum of the accounted/requested total of the fault-free run \
               (each is a distinct allocation or preflight point a real limit can refuse), plus 0, peak and peak+1; histories add seeded \
               host-op sequences (repeated runs, held results, second scope, run after violation) on one runtime. \
               A case is non-trivial and distinct by (program, fault kind, source site of the refused allocation, host op in which it fired) \
               or (program, history shape).".into(),
        assumptions: vec![
            "observer events (cfg xray_verif) are emitted at every allocate/deallocate/preflight of the runtime; the conservation model is built from them, not from xray's counter".into(),
            "programs are the shipped scripts plus value-kind templates; enumeration is complete over their fault points, not over programs".into(),
        ],
        opts: SupOpts::default(),
        required_probes: vec!["allocation_refused_runs".into(), "baseline_return_checked".into(), "payload_checked".into(), "balanced_after_other_violation".into()],
        exhaustive: false,
        extra: json!({"std_prefix_events_skipped_per_script": prefix}),
    }
}

fn c07(seed: u64, tier: &str, thorough: bool) -> CheckPlan {
    let mut jobs = vec![];
    for p in crate::checks::c07::catalogue() {
        let counts: Vec<u64> = if p.tail {
            if thorough { (0..=32).chain([50, 100, 1000, 10_000, 100_000, 300_000]).collect() } else { vec![0, 1, 2, 3, 10, 1000, 100_000] }
        } else if thorough {
            (0..=32).chain([50, 200, 1000, 3000]).collect()
        } else {
            vec![0, 1, 2, 3, 10, 200]
        };
        jobs.push(job("C07", "placement", seed, tier, json!({"placement": p.name, "counts": counts})));
    }
    CheckPlan {
        property: "C07".into(),
        tier: tier.into(),
        seed,
        level: "fault_enumeration".into(),
        jobs,
        rule: format!("One evaluation = one run of a generated recursive function (fixed catalogue of self-call placements: {} tail, {} non-tail) \
               at one iteration count under one depth/recursion limit configuration (fault-free, depth in {{3, h-1, h, h+1}}, recursion in {{0, n-1, n, n+1}}, \
               and recursion combined with a tight depth limit). Outcome, deepest frame, tail-iteration count and call count are compared with closed forms. \
               Distinct = (placement, n, depth limit, recursion limit, outcome class).",
               crate::checks::c07::catalogue().iter().filter(|p| p.tail).count(), crate::checks::c07::catalogue().iter().filter(|p| !p.tail).count()),
        assumptions: vec![
            "placements outside the catalogue (arbitrary programs) are not decided".into(),
            "frame heights and tail iterations are read from observer events in RuntimeScope::from_template / the trampoline loop".into(),
        ],
        opts: SupOpts::default(),
        required_probes: vec!["deep_tail_loop_under_small_depth_limit".into(), "nontail_depth_trip".into(), "tail_recursion_trip".into()],
        exhaustive: true,
        extra: json!({}),
    }
}

fn c08(seed: u64, tier: &str, thorough: bool) -> CheckPlan {
    let mut jobs = vec![];
    // every atom kind alone at small parameters, then seeded combinations
    for kind in crate::atoms::KINDS {
        for p in [0u64, 1, 2, 5] {
            jobs.push(job("C08", "template", seed, tier, json!({"atoms": format!("{kind}:{p}"), "max_points": 200})));
        }
    }
    let n_tpl = if thorough { 16000 } else { 250 };
    for i in 0..n_tpl {
        jobs.push(job("C08", "template", derive(seed, "c08tpl", i), tier, json!({"max_param": if thorough { 40 } else { 12 }, "max_atoms": 4, "max_points": if thorough { 200 } else { 48 }})));
    }
    for id in corpus_ids(derive(seed, "c08corpus", 0), if thorough { usize::MAX } else { 90 }) {
        jobs.push(job("C08", "corpus", derive(seed, "c08corpus", 1), tier, json!({"script": id, "max_points": if thorough { 400 } else { 40 }})));
    }
    // every documented function (sample arguments, working callbacks) swept like a corpus script
    let (calls, _, _) = crate::docsig::calls();
    for (k, c) in calls.iter().enumerate() {
        if thorough || (k as u64 + seed) % 5 == 0 {
            jobs.push(job("C08", "corpus", derive(seed, "c08doc", k as u64), tier, json!({"program": crate::docsig::program(&c.call), "label": c.label, "max_points": if thorough { 200 } else { 40 }})));
        }
    }
    let n_hist = if thorough { 12000 } else { 200 };
    for i in 0..n_hist {
        jobs.push(job("C08", "history", derive(seed, "c08hist", i), tier, json!({"count": if thorough { 24 } else { 10 }})));
    }
    CheckPlan {
        property: "C08".into(),
        tier: tier.into(),
        seed,
        level: "fault_enumeration".into(),
        jobs,
        rule: "One evaluation = one simulated host history under one configuration of the call/depth/recursion/search limits. \
               Templates are programs assembled from cost-algebra atoms with closed-form value, call count, frame depth, tail-run length and examined-element counts; \
               every limit value from the minimum to need+1 is run for each kind (thinned only above the stated point cap), plus combined configurations around the thresholds. \
               Corpus scripts are swept the same way against counts taken from independent observer events (frames built, calls counted, tail iterations). \
               Histories are seeded sequences of run/reset/second-scope operations on one runtime against a counter model. \
               Distinct = (program, limit kinds active, outcome class) for templates/corpus, (program, history shape) for histories.".into(),
        assumptions: vec![
            "closed forms cover user-written functions and native builtins only; std functions written in xray are exercised through the corpus, where counts come from observer events".into(),
            "the search budget has no observer event (its refusal is created eagerly with the iterator); search exactness is decided on templates by closed form and on the corpus as single-threshold monotonicity".into(),
        ],
        opts: SupOpts::default(),
        required_probes: vec![
            "search_trip_at_closed_form_threshold".into(), "call_trip_at_closed_form_threshold".into(), "depth_trip_at_closed_form_threshold".into(),
            "recursion_trip_at_closed_form_threshold".into(), "reset_in_history".into(), "call_budget_tripped_in_history".into(), "second_scope_shares_budget".into(),
        ],
        exhaustive: false,
        extra: json!({}),
    }
}

fn c06(seed: u64, tier: &str, thorough: bool) -> CheckPlan {
    let mut jobs = vec![];
    let n_car = crate::carriers::CARRIERS.len();
    let n_cat = crate::carriers::CATCHERS.len();
    let mut rng = Prng::new(derive(seed, "c06", 0));
    for ci in 0..n_car {
        // every carrier bare; under catchers: all of them (thorough) or two seeded ones (quick)
        let mut cats: Vec<usize> = if thorough || ci == 0 { (0..n_cat).collect() } else { vec![0, 1 + rng.below(n_cat as u64 - 1) as usize, 1 + rng.below(n_cat as u64 - 1) as usize] };
        cats.sort();
        cats.dedup();
        for ki in cats {
            jobs.push(job("C06", "carrier", derive(seed, "c06car", (ci * 64 + ki) as u64), tier,
                json!({"carrier": ci, "catcher": ki, "max_points": if thorough { 120 } else { 24 }})));
        }
    }
    for id in corpus_ids(derive(seed, "c06corpus", 0), if thorough { usize::MAX } else { 80 }) {
        jobs.push(job("C06", "corpus", derive(seed, "c06corpus", 1), tier, json!({"script": id, "max_points": if thorough { 150 } else { 20 }})));
    }
    // every documented function as a carrier (its callbacks do work), and with an error in each argument position
    let (doc_calls, _, _) = crate::docsig::calls();
    let mut doc_idx: Vec<usize> = (0..doc_calls.len()).collect();
    if !thorough {
        // all calls that take a callback, plus a seeded third of the rest
        let mut rest: Vec<usize> = doc_idx.iter().cloned().filter(|i| !doc_calls[*i].has_callback).collect();
        rng.shuffle(&mut rest);
        rest.truncate(rest.len() / 3);
        doc_idx = doc_idx.into_iter().filter(|i| doc_calls[*i].has_callback).chain(rest.into_iter()).collect();
        doc_idx.sort();
    }
    for i in doc_idx {
        jobs.push(job("C06", "doc-carrier", derive(seed, "c06doc", i as u64), tier, json!({"index": i, "max_points": if thorough { 80 } else { 16 }})));
    }
    // and with one big argument each, swept over the size limit only
    let mut kb = 0u64;
    for (i, c) in doc_calls.iter().enumerate() {
        for k in 0..crate::docsig::big_variants(c).len() {
            kb += 1;
            jobs.push(job("C06", "doc-carrier", derive(seed, "c06docbig", kb), tier, json!({"index": i, "big": k, "kinds": ["size"], "max_points": if thorough { 200 } else { 40 }})));
        }
    }
    for part in 0..16 {
        jobs.push(job("C06", "doc-errors", seed, tier, json!({"part": part, "parts": 16})));
    }
    jobs.push(job("C06", "errors", seed, tier, json!({})));
    jobs.push(job("C06", "callback-errors", seed, tier, json!({})));
    CheckPlan {
        property: "C06".into(),
        tier: tier.into(),
        seed,
        level: "fault_enumeration".into(),
        jobs,
        rule: "One evaluation = one simulated host history (instantiate, run, drop, reset, run again, drop) of real xray code under one injected fault: \
               a size / call / depth / recursion / search limit placed at a trip point taken from the fault-free run's event stream, a deadline between two allocations \
               under the simulated clock, or an output-sink fault (error, zero-length write, EINTR, short write) at one write index. Programs put a work function that consumes \
               every budget under each catcher (if_error, is_error, get_error, and/or, then, optional combinators, if) and inside each higher-order native (sequence, generator, \
               mapping/set with user hash/eq, derived eq/cmp/hash/to_str, partial, format strings, defaults), plus the shipped scripts. The error half is a fixed enumeration of \
               callee kinds x erroring argument subsets. Distinct = (program, fault kind, violation kind, source site of the refusal, host op).".into(),
        assumptions: vec![
            "which violation fired first is known from observer events (allocation/preflight/call count/frame height/tail iteration/permission), the writer double and the simulated clock - not from xray's own propagation".into(),
            "the search budget's refusal has no observer event; a MaximumSearch outcome is accepted wherever a search limit is configured".into(),
            "the error half covers the listed callee kinds only; arbitrary programs are out of reach of this technique".into(),
        ],
        opts: SupOpts::default(),
        required_probes: vec!["trip_size".into(), "trip_calls".into(), "trip_depth".into(), "trip_recursion".into(), "trip_search".into(), "trip_time".into(), "trip_writer".into(),
            "rerun_after_violation_succeeded".into(), "eintr_transparent".into(), "short_write_transparent".into(), "error_cases".into(), "callback_error_cases".into(), "doc_error_cases".into()],
        exhaustive: false,
        extra: json!({"carriers": n_car, "catchers": n_cat}),
    }
}

fn c11(seed: u64, tier: &str, thorough: bool) -> CheckPlan {
    use crate::checks::c11::{CARRIERS, SITES};
    let mut jobs = vec![];
    let asg = if thorough { "ternary" } else { "binary" };
    for (s, _, _) in SITES {
        for (c, _, _) in CARRIERS {
            jobs.push(job("C11", "template", derive(seed, "c11one", jobs.len() as u64), tier, json!({"steps": format!("{s}/{c}"), "assignments": asg})));
        }
        jobs.push(job("C11", "faults", seed, tier, json!({"steps": format!("{s}/direct")})));
        jobs.push(job("C11", "faults", seed, tier, json!({"steps": format!("{s}/seq-map+display/wrapper")})));
    }
    // every documented function under forbidden permissions
    for part in 0..32 {
        jobs.push(job("C11", "doc-seams", seed, tier, json!({"part": part, "parts": 32})));
    }
    let mut rng = Prng::new(derive(seed, "c11multi", 0));
    let n_multi = if thorough { 4000 } else { 150 };
    for i in 0..n_multi {
        let n = 2 + rng.below(3) as usize;
        let steps: Vec<String> = (0..n).map(|_| format!("{}/{}", rng.pick(SITES).0, rng.pick(CARRIERS).0)).collect();
        jobs.push(job("C11", "template", derive(seed, "c11multi", i + 1), tier, json!({"steps": steps.join("+"), "assignments": asg})));
        if i % 5 == 0 {
            jobs.push(job("C11", "faults", seed, tier, json!({"steps": steps.join("+")})));
        }
    }
    CheckPlan {
        property: "C11".into(),
        tier: tier.into(),
        seed,
        level: "exploration".into(),
        jobs,
        rule: "One evaluation = one run of an effect template (1-4 effectful builtins, each inside one carrier: direct, wrapper function, closure, map/filter/reduce callback, \
               default parameter, top-level let, taken/untaken branch, unforced lazy sequence, method chain, error handler) under one permission assignment \
               (all 64 on/off assignments plus unset-default variants; all 729 three-valued assignments in the thorough tier) with recording doubles on writer, clock, random source and sleep; \
               plus seam-fault runs (write error/zero/EINTR/short at each write, non-finite/negative/huge/backward clock values, extreme random words). \
               Exhaustive over assignments per template, sampled over multi-step templates. Distinct = (template, assignment, outcome class) / (template, fault, outcome class).".into(),
        assumptions: vec![
            "regex compilation has no injectable seam; for it only the outcome (PermissionError vs value) is observable".into(),
            "the order in which a template reaches its effect sites is declared in the template and cross-checked against the reference run".into(),
        ],
        opts: SupOpts::default(),
        required_probes: vec!["refused_site".into(), "refused_at_instantiate".into(), "unset_permission_default_used".into(), "permission_changed_after_being_set".into(), "write_fault_to_output_failure".into(),
            "soft_write_fault_transparent".into(), "clock_fault_runs".into(), "rng_fault_runs".into(), "doc_seam_runs".into(), "doc_seam_refused".into()],
        exhaustive: false,
        extra: json!({"sites": SITES.len(), "carriers": CARRIERS.len()}),
    }
}

fn c10(seed: u64, tier: &str, thorough: bool) -> CheckPlan {
    let mut jobs = vec![];
    // (a) simulated clock
    for (name, text) in crate::checks::c10::CLOCK_PROGRAMS {
        jobs.push(job("C10", "clock", derive(seed, name, 0), tier, json!({"program": text, "label": format!("C10 clock {name}"), "count": if thorough { 400 } else { 40 }})));
    }
    for id in corpus_ids(derive(seed, "c10corpus", 0), if thorough { usize::MAX } else { 60 }) {
        jobs.push(job("C10", "clock", derive(seed, "c10corpus", 1), tier, json!({"script": id, "count": if thorough { 40 } else { 8 }})));
    }
    // every documented function that takes a callback (the callbacks make a user call): the deadline lands inside the built-in
    let (doc_calls, _, _) = crate::docsig::calls();
    for (k, c) in doc_calls.iter().enumerate() {
        if c.has_callback && (thorough || (k as u64 + seed) % 3 == 0) {
            jobs.push(job("C10", "clock", derive(seed, "c10docclock", k as u64), tier, json!({"program": crate::docsig::program(&c.call), "label": format!("C10 clock {}", c.label), "count": if thorough { 60 } else { 8 }})));
        }
    }
    // (b) bounded liveness
    for (name, _) in crate::checks::c10::FIXED {
        jobs.push(job("C10", "fixed", seed, tier, json!({"name": name})));
    }
    // entries whose work the search and call budgets alone must bound: again with a size limit far out of reach
    for (name, _) in crate::checks::c10::FIXED {
        if !crate::checks::c10::SIZE_BOUNDED.contains(name) {
            jobs.push(job("C10", "fixed", seed, tier, json!({"name": name, "nosize": true})));
        }
    }
    // every documented function with adversarial arguments
    let parts = if thorough { 256 } else { 64 };
    for part in 0..parts {
        jobs.push(job("C10", "doc-adversarial", derive(seed, "c10docadv", part), tier, json!({"part": part, "parts": parts, "pairs": if thorough { 300 } else { 2 }})));
    }
    let n = if thorough { 12000 } else { 120 };
    for i in 0..n {
        jobs.push(job("C10", "pipelines", derive(seed, "c10pipe", i), tier, json!({"count": 25})));
    }
    let mut opts = SupOpts::default();
    opts.cpu_budget_s = 4.0;
    opts.mem_limit = 3 << 30;
    CheckPlan {
        property: "C10".into(),
        tier: tier.into(),
        seed,
        level: "exploration".into(),
        jobs,
        rule: "(a) One evaluation = one host history (instantiate, run, optional advance/reset-timeout, run ...) under a time limit with the simulated clock: time advances by a seeded tick at \
               allocation events, by d at sleep(d), by seeded jumps at clock reads and by host Advance ops; invariant: no user call begins later than timer start + T, and a deadline that passed \
               at a call check ends the op in Timeout. (b) One evaluation = one generated pipeline (generator/sequence source, 0-4 adaptors incl. infinite/huge ones, one consumer) or one adversarial \
               numeric/structural builtin call under finite search/call/size/depth/recursion limits in a supervised child process with a 4 CPU-second budget per scenario (expected: milliseconds). \
               Distinct = (program, tick mode, number of timeouts, ops) for (a); (pipeline shape, outcome class) for (b).".into(),
        assumptions: vec![
            "time may pass at allocation events, sleeps, clock reads and between host ops - not between xray's deadline check and the first frame of the call it admits".into(),
            "liveness is judged in CPU time of the worker process (not wall time) and confirmed by replaying the scenario alone".into(),
            "random sources are never permanently constant (rejection loops in sample legitimately need a varying source)".into(),
        ],
        opts,
        required_probes: vec!["timeout_outcomes".into(), "run_after_reset_timeout_succeeded".into(), "sleep_advanced_simulated_time".into(), "clock_jump_runs".into(), "host_advance_runs".into(), "live_runs".into()],
        exhaustive: false,
        extra: json!({"cpu_budget_s_per_scenario": 4.0}),
    }
}

fn c12(seed: u64, tier: &str, thorough: bool) -> CheckPlan {
    let mut jobs = vec![];
    let envs = if thorough { 16 } else { 4 };
    let mut scripts = crate::corpus::load_all();
    if !thorough {
        // all compile-error scripts, plus a seeded sample of the rest
        let mut rng = Prng::new(derive(seed, "c12", 0));
        let (errs, mut oks): (Vec<_>, Vec<_>) = scripts.into_iter().partition(|s| s.expects_compile_error());
        rng.shuffle(&mut oks);
        oks.truncate(120);
        scripts = errs.into_iter().chain(oks.into_iter()).collect();
        scripts.sort_by(|a, b| a.id.cmp(&b.id));
    }
    for s in scripts {
        if s.expects_violation() {
            continue;
        }
        let mut allow = vec![];
        if s.allowed("regex") { allow.push(4); }
        if s.allowed("sleep") { allow.push(5); }
        jobs.push(job("C12", "text", derive(seed, &s.id, 0), tier, json!({"script": s.id, "envs": envs, "allow": allow})));
    }
    for (name, text) in crate::checks::c12::FIXED {
        jobs.push(job("C12", "text", derive(seed, name, 0), tier, json!({"label": format!("fixed:{name}"), "text": text, "envs": envs * 2})));
    }
    for (label, text) in crate::checks::c12::literal_texts().into_iter().chain(crate::checks::c12::unicode_span_texts().into_iter()) {
        jobs.push(job("C12", "text", derive(seed, &label, 0), tier, json!({"label": label, "text": text, "envs": 2})));
    }
    for (label, text) in crate::checks::c12::sandbox_texts().into_iter().chain(crate::checks::c12::long_tuple_texts().into_iter()) {
        jobs.push(job("C12", "text", derive(seed, &label, 0), tier, json!({"label": label, "text": text, "envs": envs * 2})));
    }
    // every documented function called with one ill-typed argument: the overload-listing error text
    for (k, (label, text)) in crate::docsig::ill_typed_texts().into_iter().enumerate() {
        if thorough || (k as u64 + seed) % 4 == 0 {
            jobs.push(job("C12", "text", derive(seed, &label, 0), tier, json!({"label": label, "text": text, "envs": if thorough { envs } else { 2 }})));
        }
    }
    for (label, text) in crate::checks::c12::degenerate_texts().into_iter().chain(crate::checks::c12::halfbound_error_texts().into_iter()) {
        jobs.push(job("C12", "text", derive(seed, &label, 0), tier, json!({"label": label, "text": text, "envs": if thorough { envs } else { 2 }})));
    }
    for (label, text) in crate::checks::c12::shape_texts(thorough) {
        jobs.push(job("C12", "text", derive(seed, &label, 0), tier, json!({"label": label, "text": text, "envs": 2})));
    }
    for (label, text) in crate::checks::c12::book_examples() {
        jobs.push(job("C12", "text", derive(seed, &label, 0), tier, json!({"label": label, "text": text, "envs": envs})));
    }
    CheckPlan {
        property: "C12".into(),
        tier: tier.into(),
        seed,
        level: "exploration".into(),
        jobs,
        rule: "One evaluation = one compilation of a text (shipped scripts incl. the expected-compile-error ones, every ```xray block of the book, fixed error-provoking texts) \
               in one simulated process environment: seeded hasher keys for every compile-time hash container, seeded skips of the process-global scope-id counter, \
               a seeded history of earlier compilations on the thread; accepted programs are then instantiated and main() run under a fixed fault-free scenario. \
               The first environment is the plain one; every other must agree on acceptance, rendered error text, exported outcome and output bytes. \
               Distinct = (text, acceptance / error class).".into(),
        assumptions: vec![
            "determinism / history-independence half only: totality over arbitrary UTF-8 inputs is input fuzzing and is not decided here".into(),
            "no runtime exists during compilation, so 'never touches writer/clock/random source' holds by construction and is only recorded".into(),
        ],
        opts: SupOpts::default(),
        required_probes: vec!["compile_time_hash_containers_seeded".into(), "compiled_after_other_compilations".into(), "scope_ids_skipped".into(), "compiled_after_rejected_texts_on_the_same_scope".into(), "instantiated_twice".into()],
        exhaustive: false,
        extra: json!({"environments_per_text": envs}),
    }
}

fn c17(seed: u64, tier: &str, thorough: bool) -> CheckPlan {
    let mut jobs = vec![];
    let n = if thorough { 6000 } else { 160 };
    for i in 0..n {
        jobs.push(job("C17", "histories", derive(seed, "c17hist", i), tier, json!({"count": 10, "layouts": if thorough { 4 } else { 2 }, "max_ops": 40})));
    }
    for i in 0..crate::checks::c17::BIG_OBS.len() {
        jobs.push(job("C17", "big-faults", seed, tier, json!({"obs": i, "max_points": if thorough { 600 } else { 60 }})));
    }
    let nf = if thorough { 1500 } else { 60 };
    for i in 0..nf {
        jobs.push(job("C17", "faults", derive(seed, "c17fault", i), tier, json!({"max_points": if thorough { 80 } else { 30 }})));
    }
    CheckPlan {
        property: "C17".into(),
        tier: tier.into(),
        seed,
        level: "exploration".into(),
        jobs,
        rule: "One evaluation = one generated program that applies a history of 1-40 mapping or set operations (set, set_default, discard, pop, bulk update from generator / other version, \
               update_from_keys, update_counter, clear, map_values; add, update, discard, remove, clear, | & - ^) over keys 0..11 with hash (k % E) % M and equality k % E (E from 1 to 12, M from 1 = all keys collide \
               to 1000; plus the built-in int hash), bases chosen among all earlier versions, and then prints len / lookup of every key / values / entries / sorted key classes / contains / get / subset relations for every version. \
               Output is compared line by line with an association-list model over equivalence classes. Every history runs under 2 (quick) or 4 (thorough) seeded hasher layouts. \
               Fault runs place call, size and depth limits at trip points inside the hash/eq callbacks. Distinct = (collection kind, E, M, op count, layout class).".into(),
        assumptions: vec![
            "keys are ints from a universe of 12; the representative key of a class is unspecified and never observed".into(),
            "a violation aborts the whole evaluation, so 'a failed update leaves the old version intact' is observed as: a complete rerun after reset prints exactly the model's observations".into(),
        ],
        opts: SupOpts::default(),
        required_probes: vec!["histories_checked".into(), "all_keys_collide".into(), "equality_coarser_than_identity".into(), "alternate_layout".into(),
            "violation_inside_collection_callback".into(), "complete_run_after_violation_matches_model".into(), "search_limited_history_completed".into()],
        exhaustive: false,
        extra: json!({}),
    }
}

fn c19(seed: u64, tier: &str, thorough: bool) -> CheckPlan {
    let mut jobs = vec![];
    for (li, len) in crate::checks::c19::lengths(thorough).into_iter().enumerate() {
        let reps = if thorough { 12 } else { 2 };
        for r in 0..reps {
            jobs.push(job("C19", "reference", derive(seed, "c19ref", (li * 100 + r) as u64), tier,
                json!({"len": len, "count": if thorough { 6 } else { 3 }, "poison_max": if thorough { 40 } else { 10 }})));
            jobs.push(job("C19", "faults", derive(seed, "c19fault", (li * 100 + r) as u64), tier,
                json!({"len": len, "max_points": if thorough { 400 } else { 60 }})));
        }
    }
    for r in 0..(if thorough { 200 } else { 24 }) {
        jobs.push(job("C19", "seq-search", derive(seed, "c19seqsearch", r as u64), tier, json!({})));
    }
    for r in 0..(if thorough { 400 } else { 30 }) {
        jobs.push(job("C19", "collection-coherence", derive(seed, "c19collcoh", r as u64), tier, json!({"count": 20})));
    }
    jobs.push(job("C19", "coherence", seed, tier, json!({})));
    CheckPlan {
        property: "C19".into(),
        tier: tier.into(),
        seed,
        level: "fault_enumeration".into(),
        jobs,
        rule: "One evaluation = one generated program that applies sort, sort_reverse, n_largest, n_smallest, nth_largest, nth_smallest and median with a user comparator (key = value % K, many ties) \
               to one input of length 0-200 (lengths chosen around the insertion-sort cutoff 20, MIN_RUN 10 and run/merge boundaries; patterns: ascending, descending, sorted-by-key, two runs, almost sorted, sawtooth, shuffled) \
               and prints results, compared with a harness-side stable sort (element identity for sort/sort_reverse, key sequences for order statistics). Failure injection: the call budget, size limit and depth limit \
               at trip points inside the comparator (every comparison index for short inputs, thinned to the stated cap for long ones), and a comparator that returns an error value when it sees a poison element, poison swept over positions. \
               After each failure: outcome is that failure, accounting balances and returns to the pre-call value, the input reads back unchanged, a rerun gives the reference. \
               Distinct = (length, pattern, n, ok/poison) and (length, pattern, violation kind, refusal site).".into(),
        assumptions: vec![
            "only the sorting / failure half of C19 is decided; the algebraic coherence laws of derived eq/hash/cmp/to_str are pure relations and are not applicable to this technique".into(),
            "memory-safety of the unsafe merge/heap code on failure paths is observed through the accounting model (a lost or duplicated Rc changes the deallocation multiset) and crashes, not through a sanitizer".into(),
        ],
        opts: SupOpts::default(),
        required_probes: vec!["reference_compared".into(), "comparator_error_value_midway".into(), "violation_inside_comparator".into(), "rerun_after_interrupted_sort_matches_reference".into(), "coherence_relations_checked".into(), "ordered_pair_failure_reached".into(), "sequence_comparisons_compared".into(), "collection_coherence_cases".into()],
        exhaustive: false,
        extra: json!({}),
    }
}
