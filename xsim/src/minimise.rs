//! Minimisation of a violating scenario before it is written as a replay file: host operations,
//! environment plan entries and limits that are not needed for the *same* violation signature
//! are removed, one candidate at a time, each candidate re-run alone in a supervised worker.

use crate::engine::{HostOp, Scenario, BIG};
use crate::job::Violation;
use crate::report::single_job;
use crate::sup::{run_jobs, JobOutcome, SupOpts};

/// smaller variants of `sc`, most aggressive first
fn candidates(sc: &Scenario) -> Vec<Scenario> {
    let mut out = vec![];
    // drop one host op (never the first Instantiate)
    for i in (1..sc.ops.len()).rev() {
        let mut c = sc.clone();
        c.ops.remove(i);
        // result indices of DropResult shift only if a result-producing op before them goes away; keep it simple:
        // DropResult ops are no-ops when out of range
        out.push(c);
    }
    // environment plan
    for i in 0..sc.env.writer.len() {
        let mut c = sc.clone();
        c.env.writer.remove(i);
        out.push(c);
    }
    for i in 0..sc.env.mono_jumps.len() {
        let mut c = sc.clone();
        c.env.mono_jumps.remove(i);
        out.push(c);
    }
    for i in 0..sc.env.unix_plan.len() {
        let mut c = sc.clone();
        c.env.unix_plan.remove(i);
        out.push(c);
    }
    for i in 0..sc.perm_ops.len() {
        let mut c = sc.clone();
        c.perm_ops.remove(i);
        out.push(c);
    }
    let simple: [(&dyn Fn(&Scenario) -> bool, &dyn Fn(&mut Scenario)); 12] = [
        (&|s| s.env.alloc_tick_ns != 0, &|s| s.env.alloc_tick_ns = 0),
        (&|s| s.env.read_tick_ns != 0, &|s| s.env.read_tick_ns = 0),
        (&|s| s.env.rng_extreme_words != 0, &|s| s.env.rng_extreme_words = 0),
        (&|s| s.env.id_skip_seed != 0, &|s| s.env.id_skip_seed = 0),
        (&|s| s.env.compile_layout_seed != 1, &|s| s.env.compile_layout_seed = 1),
        (&|s| s.env.layout_seed != 1, &|s| s.env.layout_seed = 1),
        (&|s| s.limits.size.map_or(false, |v| v != BIG), &|s| s.limits.size = Some(BIG)),
        (&|s| s.limits.ud_call.map_or(false, |v| v != BIG), &|s| s.limits.ud_call = Some(BIG)),
        (&|s| s.limits.depth.is_some(), &|s| s.limits.depth = None),
        (&|s| s.limits.recursion.is_some(), &|s| s.limits.recursion = None),
        (&|s| s.limits.search.is_some(), &|s| s.limits.search = None),
        (&|s| s.limits.time_ns.is_some(), &|s| s.limits.time_ns = None),
    ];
    for (applies, f) in simple {
        if applies(sc) {
            let mut c = sc.clone();
            f(&mut c);
            out.push(c);
        }
    }
    for i in 0..6 {
        if sc.perms[i].is_some() {
            let mut c = sc.clone();
            c.perms[i] = None;
            out.push(c);
        }
    }
    // an op list must still start with an instantiation to make sense
    out.retain(|c| matches!(c.ops.first(), Some(HostOp::Instantiate { .. })));
    out
}

fn reproduces(outcome: &JobOutcome, v: &Violation) -> bool {
    match outcome {
        JobOutcome::Done(r) => r.violations.iter().any(|x| x.property == v.property && x.signature == v.signature),
        JobOutcome::Died { .. } => false,
    }
}

/// returns the minimised violation and the number of candidate runs spent
pub fn minimise(v: &Violation, opts: &SupOpts) -> (Violation, usize) {
    let Some(mut sc) = v.scenario.clone() else { return (v.clone(), 0) };
    if v.class == "hang" || v.class == "abort" {
        return (v.clone(), 0);
    }
    let mut spent = 0usize;
    let mut o = opts.clone();
    o.cpu_budget_s = o.cpu_budget_s.min(5.0);
    // the violation must reproduce alone to begin with
    let first = run_jobs(&[single_job(&v.check, &sc)], &o);
    spent += 1;
    if !reproduces(&first[0], v) {
        return (v.clone(), spent);
    }
    for _round in 0..40 {
        let cands = candidates(&sc);
        if cands.is_empty() || spent > 400 {
            break;
        }
        let jobs: Vec<_> = cands.iter().map(|c| single_job(&v.check, c)).collect();
        let outs = run_jobs(&jobs, &o);
        spent += jobs.len();
        match outs.iter().position(|out| reproduces(out, v)) {
            Some(i) => sc = cands[i].clone(),
            None => break,
        }
    }
    let mut m = v.clone();
    if let JobOutcome::Done(r) = &run_jobs(&[single_job(&v.check, &sc)], &o)[0] {
        if let Some(x) = r.violations.iter().find(|x| x.property == v.property && x.signature == v.signature) {
            m.detail = x.detail.clone();
        }
    }
    m.scenario = Some(sc);
    (m, spent)
}
